#!/bin/bash
# Runs the checks against every seeded change (one at a time, /repo patched and restored each time).
cd /verif
run() { dev/mutant.sh "$@" >> /var/tmp/mutant_matrix.log 2>&1; }
: > /var/tmp/mutant_matrix.log
run F2-revert C11
run F1-revert C04 --only "c04_dual"
run F1-revert C11 --only "c11_dual_parser"
run m01-C01 C01 --only "c01_new_is_base_case|c01_step_0_1$"
run m01-C01 C12
run m05-C12 C12
run m02-C04 C04
run m03-C07 C07
run m03-C07 C11 --only "c11_dual_compress_dirty"
run m09-C11 C11 --only "c11_dual_compress_dirty"
run m04-C02 C02 --only "c02_reused"
run m04-C02 C17
run m06-C06 C06
run m06-C06 C07 --only "c07_kernel32_b6"
run m07-C03 C03
run m07-C03 C01 --only "c01_step_(0_2|26_31|29_31)$"
run m08-C09 C09
run m08-C09 C10 --only "c10_c_s_m8_3_4$"
run m14-C10 C10
run m10-C13 C13
run m10-C13 C12 --only "c12_set_fixed"
run m11-C16 C16
run m12-C05 C05
run m13-C08 C08
run m15-C15 C15
run m16-C17 C17 --only "c17_target_init"
run m17-C18 C18
run m18-C19 C19
run m19-C14 C14 --only "unchecked_score"
run m20-C20 C20
echo MATRIX-DONE >> /var/tmp/mutant_matrix.log
