#!/bin/bash
# dev/mutant.sh <seeded-id> <prop> [extra check args]  -- apply /verif/seeded/<id>/patch.diff to a SCRATCH COPY of
# /repo's working tree (never to /repo itself: an interrupted run once left a seeded change behind in /repo, see
# DESIGN.md section 0.5), run the property's check against that copy (VERIF_REPO; no evidence written), remove the
# copy, record the outcome.
id=$1; prop=$2; shift 2
patch=/verif/seeded/$id/patch.diff
[ -f $patch ] || { echo "no $patch"; exit 2; }
copy=/var/tmp/ffuzzy-mutant.$$
trap 'rm -rf "$copy"' EXIT INT TERM
mkdir -p $copy
rsync -a --exclude /target --exclude .git /repo/ $copy/ || exit 2
( cd $copy && git init -q . 2>/dev/null; git -C $copy apply $patch ) || { echo "patch does not apply"; exit 2; }
rm -rf $copy/.git
out=/verif/seeded/$id/check_$prop.txt
( cd /verif && VERIF_REPO=$copy VERIF_MEM_GB=${VERIF_MEM_GB:-52} ./check $prop --no-evidence "$@" ) > $out 2>&1
rc=$?
echo "exit=$rc" >> $out
for r in $(grep -o "replay=[^ ]*" $out | cut -d= -f2 | sort -u); do [ -f "$r" ] && cp "$r" /verif/seeded/$id/replay_$(basename $r); done
grep -h "VIOLATION\|tier=\|KNOWN\|INCONCL" $out | cut -c1-200
echo "$id $prop exit=$rc"
