#!/bin/bash
# dev/mutant.sh <seeded-id> <prop> [extra check args]  -- apply /verif/seeded/<id>/patch.diff to /repo, run the
# property's check (no evidence written), undo the patch straight afterwards, record the outcome.
id=$1; prop=$2; shift 2
patch=/verif/seeded/$id/patch.diff
[ -f $patch ] || { echo "no $patch"; exit 2; }
if [ -n "$(git -C /repo status --porcelain)" ]; then echo "/repo is not clean"; exit 2; fi
git -C /repo apply $patch || exit 2
out=/verif/seeded/$id/check_$prop.txt
( cd /verif && VERIF_MEM_GB=${VERIF_MEM_GB:-52} ./check $prop --no-evidence "$@" ) > $out 2>&1
rc=$?
git -C /repo checkout -- .
echo "exit=$rc" >> $out
for r in $(grep -o "replay=[^ ]*" $out | cut -d= -f2 | sort -u); do [ -f "$r" ] && cp "$r" /verif/seeded/$id/replay_$(basename $r); done
grep -h "VIOLATION\|tier=\|KNOWN\|INCONCL" $out | cut -c1-200
echo "$id $prop exit=$rc"
