#!/bin/bash
cd /verif
run() { dev/mutant.sh "$@" >> /var/tmp/mutant_matrix3.log 2>&1; }
: > /var/tmp/mutant_matrix3.log
run m18-C19 C19 --only "c19_roll_slice_fixed8"
run m19-C14 C14 --only "unchecked_score"
run m16-C17 C17 --only "c17_target_init_lite"
run m04-C02 C17 --only "c17_target_init_lite_short_m3"
run m04-C02 C02 --only "c02_reused_target_init_lite_m3"
run m11-C16 C16 --only "c16_pair_long_raw_m4_40"
run m06-C06 C06 --only "c06_norm32_b16|c06_norm32_planted|c06_norm64_b16"
run m06-C06 C07 --only "c07_kernel32_b6"
run m10-C13 C13 --only "c13_fork_limit_for_every_hint|c13_hint_keeps_limit_ok"
run m10-C13 C12 --only "c12_set_fixed|c12_hint_keeps"
run m08-C09 C09 --only "c09_cs_a10_b9_s64"
run m14-C10 C09 --only "c09_cs_a10_b9_s64"
run m07-C03 C01 --only "c01_step_(26_31|29_31|30_31)$"
run m07-C03 C03 --only "c03_one_slice_29_31"
run m17-C18 C18 --only "c18_stream_no_hint"
run m14-C10 C10 --only "c10_c_s_m7a4_3_3|c10_c_s_m8_3_4"
run m08-C09 C10 --only "c10_c_s_m7a4_3_3"
echo MATRIX-DONE >> /var/tmp/mutant_matrix3.log
