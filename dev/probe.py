#!/usr/bin/env python3
"""Calibration helper: run harnesses by (substring of) name in parallel.
usage: dev/probe.py [-c cfg] [-t cap] [-j N] [-u unwind] [-m memGB] <module.rs suffix or '-'> <harness> [<harness> ...]
Harness names are function names; the module is found by grepping the overlay.
"""
import argparse, concurrent.futures as cf, os, re, subprocess, sys, time
HERE = os.path.dirname(os.path.dirname(os.path.abspath(__file__)))
sys.path.insert(0, HERE)
from engine import shadow, kani_run, tables
from engine.queries import CONFIGS

ap = argparse.ArgumentParser()
ap.add_argument("-c", "--cfg", default="default")
ap.add_argument("-t", "--cap", type=int, default=600)
ap.add_argument("-j", "--jobs", type=int, default=8)
ap.add_argument("-u", "--unwind", type=int, default=None)
ap.add_argument("-m", "--mem", type=int, default=12)
ap.add_argument("--tag", default=None)
ap.add_argument("--stub", action="store_true")
ap.add_argument("--nofs", action="store_true", help="--no-array-field-sensitivity")
ap.add_argument("--root", default="/var/tmp/vprobe")
ap.add_argument("-s", "--set", action="append", default=[], help="regex=N unwindset rule")
ap.add_argument("--like", default=None, help="take unwindset/stubbing/cbmc_args/cfg from this table query")
ap.add_argument("harness", nargs="+")
a = ap.parse_args()
root = a.root
crate = shadow.make_shadow(os.path.join(root, "src"))
ov = os.path.join(HERE, "harness", "overlay")
def find(h):
    for dp, dn, fn in os.walk(ov):
        for f in fn:
            p = os.path.join(dp, f)
            if re.search(r"(fn %s\s*\(|!\(%s,)" % (re.escape(h), re.escape(h)), open(p).read()):
                return os.path.relpath(p, ov)
    raise SystemExit("harness %s not found" % h)
like = None
if a.like:
    from engine import queries as _q
    like = [q for q in _q.ALL if q.name == a.like][0]
    a.cfg = like.cfg
    a.stub = like.stubbing
    a.set = ["%s=%d" % (rx, n) for rx, n in (like.unwindset or [])]
    if "--no-array-field-sensitivity" in (like.cbmc_args or []):
        a.nofs = True
feats, nodef, dbg = CONFIGS[a.cfg]
os.makedirs(os.path.join(root, "logs"), exist_ok=True)
def one(args):
    i, h = args
    mod = find(h)
    full = tables.modpath(mod) + "::" + h
    cbmc_args = None
    if a.set:
        from engine import unwindset
        from engine.queries import Q
        q = Q(h, "X", harness=full, module=mod, cfg=a.cfg, stubbing=a.stub,
              unwindset=[(s.rsplit("=", 1)[0], int(s.rsplit("=", 1)[1])) for s in a.set])
        us = unwindset.discover(crate, q, os.path.join(root, "t%d" % (i % a.jobs)), os.path.join(root, "logs", h + ".loops.log"))
        if us: cbmc_args = ["--unwindset", us]
        print(h, "unwindset:", len(us.split(",")) if us else 0, "loops", flush=True)
    if a.nofs:
        cbmc_args = (cbmc_args or []) + ["--no-array-field-sensitivity"]
    r = kani_run.run_query(crate, full, os.path.join(root, "t%d" % (i % a.jobs)), os.path.join(root, "logs", h + "." + a.cfg + ".log"),
                           a.cap, mem_gb=a.mem, features=feats, no_default_features=nodef, debug_assertions=dbg,
                           unwind=a.unwind, only_tag=a.tag, stubbing=a.stub, cbmc_args=cbmc_args)
    print("%-40s %-8s wall %6.1fs solver %s vars %s covers %s %s %s" % (h, r.verdict, r.wall_s, r.solver_s, r.vars, r.covers, r.note, [f[1][:80] for f in r.failed[:3]]), flush=True)
with cf.ThreadPoolExecutor(a.jobs) as ex:
    list(ex.map(one, enumerate(a.harness)))
