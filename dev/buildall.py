#!/usr/bin/env python3
"""dev/buildall.py -- compile the harness overlay over a shadow copy of /repo in EVERY feature configuration
(`cargo kani --only-codegen` of one tiny harness per configuration).  Catches harness modules that only build with
the default features (round 2: two ungated `alloc` harnesses broke all `--no-default-features` queries of C14).
Exit 0 if every configuration compiles."""
import os, shutil, subprocess, sys
HERE = os.path.dirname(os.path.dirname(os.path.abspath(__file__)))
sys.path.insert(0, HERE)
from engine import shadow, kani_run, tables  # noqa
from engine.queries import CONFIGS

root = "/var/tmp/ffuzzy-buildall.%d" % os.getpid()
crate = shadow.make_shadow(os.path.join(root, "src"))
q = next(x for x in tables.queries.ALL if x.name == "c20_log_roundtrip")
bad = 0
try:
    for cfg, (feats, nodef, dbg) in CONFIGS.items():
        if not dbg:
            continue    # same cfg(...) set as the debug-assertion twin
        cmd = kani_run.kani_cmd(q.harness, os.path.join(root, "t"), feats, nodef, None, extra=["--only-codegen"])
        p = subprocess.run(cmd, cwd=crate, env=kani_run.kani_env(dbg), stdout=subprocess.PIPE, stderr=subprocess.STDOUT, text=True)
        ok = p.returncode == 0
        print("%-12s %s" % (cfg, "builds" if ok else "BUILD ERROR"), flush=True)
        if not ok:
            bad += 1
            print("\n".join(l for l in p.stdout.splitlines() if l.startswith("error") or l.startswith("  -->"))[:2000])
finally:
    shutil.rmtree(root, ignore_errors=True)
sys.exit(1 if bad else 0)
