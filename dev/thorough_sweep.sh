#!/bin/bash
# dev/thorough_sweep.sh <props...>: thorough tier against a clean clone of /repo (calibration only, no evidence)
mkdir -p /var/tmp/sweep /var/tmp/thlogs
for p in "$@"; do
  VERIF_REPO=/var/tmp/repo-clean VERIF_LOGS=/var/tmp/thlogs VERIF_JOBS=10 VERIF_MEM_GB=34 /verif/check $p --tier thorough --no-evidence > /var/tmp/sweep/$p.thorough.log 2>&1
  echo "$p exit $?" >> /var/tmp/sweep/summary.thorough.txt
done
