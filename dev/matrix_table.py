#!/usr/bin/env python3
"""Summarises /verif/seeded/*/check_<prop>.txt into a markdown table (for DESIGN.md section 0.4)."""
import glob, json, os, re
rows = []
for d in sorted(glob.glob("/verif/seeded/*")):
    sid = os.path.basename(d)
    meta = {}
    try:
        meta = json.load(open(os.path.join(d, "meta.json")))
    except Exception:
        pass
    for f in sorted(glob.glob(os.path.join(d, "check_*.txt"))):
        prop = re.search(r"check_(C\d+)", f).group(1)
        txt = open(f).read()
        rc = re.search(r"exit=(\d+)", txt)
        viol = sorted(set(re.findall(r"VIOLATION property=\S+ replay=\S+/(\S+)\.rs", txt)))
        fails = sorted(set(re.findall(r"\]\s+(\S+)\s+FAIL", txt)))
        summ = re.search(r"tier=\w+: (\d+) queries, (\d+) discharged", txt)
        nc = sorted(set(re.findall(r"NOT-COMPLETED (\S+):", txt)))
        inc = sorted(set(re.findall(r"INCONCLUSIVE (\S+):", txt)))
        rows.append((sid, prop, rc.group(1) if rc else "?", viol, fails, summ.groups() if summ else None, nc, inc))
for r in rows:
    sid, prop, rc, viol, fails, summ, nc, inc = r
    print("| %s | %s | %s | %s | %s |" % (sid, prop, {"1": "**VIOLATION**", "0": "not detected", "2": "inconclusive"}.get(rc, rc),
                                   ", ".join(viol) or ("FAIL (not replayed): " + ", ".join(fails) if fails else "-"),
                                   ("not completed: " + ", ".join(nc)) if nc else "" + (("inconclusive: " + ", ".join(inc)) if inc else "")))
