#!/bin/bash
# usage: dev/sweep.sh <tier> <prop> [<prop> ...]   -- runs checks one after another, logs to /var/tmp/sweep
mkdir -p /var/tmp/sweep
tier=$1; shift
for p in "$@"; do
  /verif/check $p --tier $tier > /var/tmp/sweep/$p.$tier.log 2>&1
  echo "$p exit $?" >> /var/tmp/sweep/summary.$tier.txt
done
