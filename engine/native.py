"""Build and run the native companion binary against a shadow copy of the crate."""
import os
import subprocess

from . import shadow


def build(root, crate, release=True):
    d = os.path.join(root, "native")
    os.makedirs(os.path.join(d, "src"), exist_ok=True)
    src = os.path.join(shadow.VERIF, "harness", "native")
    with open(os.path.join(src, "Cargo.toml.in")) as fh:
        toml = fh.read().replace("@FFUZZY@", crate)
    with open(os.path.join(d, "Cargo.toml"), "w") as fh:
        fh.write(toml)
    with open(os.path.join(src, "src", "main.rs")) as fh:
        main = fh.read()
    with open(os.path.join(d, "src", "main.rs"), "w") as fh:
        fh.write(main)
    # reuse the repository's lock file so that dependency versions resolve offline
    lock = os.path.join(os.path.dirname(crate), "Cargo.lock")
    env = dict(os.environ)
    env["CARGO_NET_OFFLINE"] = "true"
    env["VERIF_SPEC_DIR"] = os.path.join(shadow.VERIF, "harness", "spec")
    env["CARGO_TARGET_DIR"] = os.path.join(root, "t-native")
    env.pop("RUSTFLAGS", None)
    cmd = ["cargo", "build", "--offline"] + (["--release"] if release else [])
    p = subprocess.run(cmd, cwd=d, env=env, stdout=subprocess.PIPE, stderr=subprocess.STDOUT, text=True)
    if p.returncode != 0:
        return None, p.stdout
    return os.path.join(root, "t-native", "release" if release else "debug", "verif-native"), p.stdout


def run(binary, args, timeout=600):
    p = subprocess.run([binary] + list(args), stdout=subprocess.PIPE, stderr=subprocess.STDOUT, text=True, timeout=timeout)
    return p.returncode, p.stdout
