"""Replay of solver counterexamples against the real code (native execution).

A failed Kani query is re-run with `-Z concrete-playback --concrete-playback=print`;
the printed unit test (concrete byte values for every kani::any()) is appended to the
harness module in a fresh shadow copy and executed natively with
`cargo kani playback` (ordinary `cargo test` of the real crate with cfg(kani), dev
profile, and a second time with --release).  Only a counterexample whose native run
fails the same way is reported as a VIOLATION.

The replay artifact (/verif/replays/<prop>/<query>.rs) is self-contained: header
lines say which module it belongs to and which configuration to build.
"""
import os
import re
import subprocess

from . import shadow, kani_run
from .queries import CONFIGS

HEADER_RE = re.compile(r"^// verif-replay: (\w+)=(.*)$", re.M)


def _strip_dev_deps(crate):
    p = os.path.join(crate, "Cargo.toml")
    out, skip = [], False
    with open(p) as fh:
        for line in fh:
            if line.startswith("["):
                skip = "dev-dependencies" in line
            if not skip:
                out.append(line)
    with open(p, "w") as fh:
        fh.write("".join(out))


def _wrap(test_code):
    body = "\n".join("    " + l for l in test_code.splitlines())
    return ("\n#[cfg(test)]\nmod verif_replay {\n    use super::*;\n    #[allow(unused_imports)]\n"
            "    use std::vec;\n    #[allow(unused_imports)]\n    use std::vec::Vec;\n" + body + "\n}\n")


def run_native(test_code, module, cfg, only_tag, root, extra_files, log, tag="replay"):
    """Returns (reproduced, detail)."""
    d = os.path.join(root, tag)
    crate = shadow.make_shadow(d, extra_files=extra_files)
    _strip_dev_deps(crate)
    mp = os.path.join(crate, module)
    with open(mp, "a") as fh:
        fh.write(_wrap(test_code))
    m = re.search(r"fn (kani_concrete_playback_\w+)", test_code)
    if not m:
        return False, "no playback test in solver output"
    test_name = m.group(1)
    feats, nodef, dbg = CONFIGS[cfg]
    outcomes = []
    for profile in ("dev", "release"):
        cmd = ["cargo", "kani", "playback", "-Z", "concrete-playback"]
        if nodef:
            cmd.append("--no-default-features")
        if feats:
            cmd += ["--features", ",".join(feats)]
        cmd += ["--", test_name]
        env = kani_run.kani_env(dbg)
        if profile == "release":
            # `cargo kani playback` has no --release; give the dev/test profile release semantics instead
            for prof in ("DEV", "TEST"):
                env["CARGO_PROFILE_%s_OPT_LEVEL" % prof] = "3"
                env["CARGO_PROFILE_%s_DEBUG_ASSERTIONS" % prof] = "false"
                env["CARGO_PROFILE_%s_OVERFLOW_CHECKS" % prof] = "false"
        env["CARGO_TARGET_DIR"] = os.path.join(root, "t-replay-" + profile)
        p = subprocess.run(cmd, cwd=crate, env=env, stdout=subprocess.PIPE, stderr=subprocess.STDOUT,
                           text=True, errors="replace", timeout=1200)
        txt = p.stdout
        ran = "running 1 test" in txt
        failed = ran and re.search(r"test result: FAILED", txt) is not None
        if failed and only_tag is not None:
            failed = only_tag in txt
        outcomes.append((profile, ran, failed))
        with open(os.path.join(root, "replay-%s.log" % profile), "w") as fh:
            fh.write(txt)
    dev = outcomes[0]
    rel = outcomes[1]
    # Kani models the dev profile (with the query's debug-assertion setting); the dev
    # replay is what must reproduce.  The release outcome is reported as information.
    detail = "native replay: dev %s, release %s" % (
        "FAILS (reproduced)" if dev[2] else ("passes" if dev[1] else "did not run"),
        "FAILS (reproduced)" if rel[2] else ("passes" if rel[1] else "did not run"))
    return bool(dev[2] or rel[2]), detail


def replay_query(q, res, root, extra_files, log):
    """Obtain concrete values for a failed query and replay them natively."""
    feats, nodef, dbg = CONFIGS[q.cfg]
    crate = os.path.join(root, "src", shadow.CRATE)
    lp = (res.log or os.path.join(root, q.name)) + ".playback.log"
    cbmc_args = list(q.cbmc_args or [])
    us = getattr(res, "unwindset", None)
    if us:
        cbmc_args += ["--unwindset", us]
    r2 = kani_run.run_query(crate, q.harness, os.path.join(root, "t-pb"), lp, cap_s=max(q.cap) * 2,
                            mem_gb=max(40, q.mem * 2), features=feats, no_default_features=nodef,
                            debug_assertions=dbg, unwind=q.unwind, cbmc_args=cbmc_args or None,
                            stubbing=q.stubbing, only_tag=q.only_tag, playback=True)  # kani-driver needs room for the trace
    if r2.verdict != "FAIL" or not r2.playback:
        log("  playback run of %s: %s (no concrete test obtained)" % (q.name, r2.verdict))
        return False, None
    ok, detail = run_native(r2.playback, q.module, q.cfg, q.only_tag, root, extra_files, log)
    log("  %s: %s" % (q.name, detail))
    if not ok:
        return False, None
    outdir = os.path.join(shadow.VERIF, "replays", q.prop)
    os.makedirs(outdir, exist_ok=True)
    path = os.path.join(outdir, q.name + ".rs")
    fails = "; ".join(f[1] for f in res.failed[:3])
    with open(path, "w") as fh:
        fh.write("// verif-replay: property=%s\n// verif-replay: query=%s\n// verif-replay: module=%s\n"
                 "// verif-replay: cfg=%s\n// verif-replay: tag=%s\n"
                 % (q.prop, q.name, q.module, q.cfg, q.only_tag or ""))
        fh.write("// failed check(s): %s\n// %s\n// re-run: /verif/check %s --replay %s\n"
                 % (fails, detail, q.prop, path))
        fh.write(r2.playback)
    return True, path


def replay_file(path, root, log):
    from . import tables
    with open(path) as fh:
        text = fh.read()
    hdr = dict(HEADER_RE.findall(text))
    if "smt" in hdr.get("engine", ""):
        from . import smt_run
        return smt_run.replay_file(path, hdr, text, root, log)
    q = next((x for x in tables.queries.ALL if x.name == hdr.get("query")), None)
    extra = tables.generated_files([q]) if q else {}
    code = "\n".join(l for l in text.splitlines() if not l.startswith("// "))
    ok, detail = run_native(code, hdr["module"], hdr.get("cfg", "default"), hdr.get("tag") or None,
                            root, extra, log)
    log(detail)
    if ok:
        log("VIOLATION property=%s replay=%s" % (hdr.get("property"), path))
        return 1
    log("replay passes on the current tree")
    return 0
