"""Query tables: which solver queries decide which property, in which tier.

A query is one solver problem over the real code: a Kani proof harness (engine
"kani") living in an overlay module, or an SMT obligation generated from the
MIR of a real function (engine "smt", see engine/mir2smt.py).
"""

CONFIGS = {
    # name: (features, no_default_features, debug_assertions)
    "default":        ([], False, True),
    "release":        ([], False, False),
    "unsafe":         (["unsafe"], False, True),
    "unsafe-release": (["unsafe"], False, False),
    "unchecked":      (["unchecked"], False, True),
    "unchecked-release": (["unchecked"], False, False),
    "fnv":            (["opt-reduce-fnv-table"], False, True),
    "fnv-release":    (["opt-reduce-fnv-table"], False, False),
    "unsafe-fnv":     (["unsafe", "opt-reduce-fnv-table"], False, True),
    "unsafe-fnv-release": (["unsafe", "opt-reduce-fnv-table"], False, False),
    "strict":         (["strict-parser"], False, True),
    "strict-release": (["strict-parser"], False, False),
    "nodefault":      ([], True, True),
    "nodefault-release": ([], True, False),
}


class Q:
    def __init__(self, name, prop, harness=None, module=None, tiers=("quick", "thorough"),
                 shape="BMC", bound="", outside="", enc=(), cfg="default", cap=(300, 1800),
                 unwind=None, mem=8, assumptions=(), ladder=None, rung=0, only_tag=None,
                 engine="kani", stubbing=False, cbmc_args=None, sample=None, gen=None,
                 unwindset=None, cost=10):
        self.name = name
        self.prop = prop
        self.harness = harness or name
        self.module = module          # overlay file (relative to ffuzzy/) holding the harness
        self.tiers = tiers
        self.shape = shape            # "BMC" | "inductive step" | "full domain" | "model lemma"
        self.bound = bound
        self.outside = outside
        self.enc = list(enc)
        self.cfg = cfg
        self.cap = cap                # (quick cap s, thorough cap s)
        self.unwind = unwind
        self.mem = mem
        self.assumptions = list(assumptions)
        self.ladder = ladder          # ladder group name or None
        self.rung = rung              # larger = stronger bound
        self.only_tag = only_tag
        self.engine = engine
        self.stubbing = stubbing
        self.cbmc_args = cbmc_args
        self.sample = sample
        self.gen = gen                # dict of generated-file parameters
        self.unwindset = unwindset    # list of (regex on "function:line" , bound)
        self.cost = cost              # expected seconds (scheduling: longest first)

    def descriptor(self):
        return {
            "query": self.name, "engine": self.engine, "harness": self.harness,
            "shape": self.shape, "bound": self.bound, "outside_bound": self.outside,
            "functions_encoded": self.enc, "configuration": self.cfg,
            "assumptions": self.assumptions,
        }


ALL = []


def add(*qs):
    ALL.extend(qs)


def for_prop(prop, tier):
    return [q for q in ALL if q.prop == prop and tier in q.tiers]
