"""Shadow copies of /repo with harness overlays.

A shadow is an rsync copy of the repository's *working tree* (minus target/ and
.git) in a scratch directory outside /repo and /verif.  Only the test-module
slots (`src/**/tests.rs`, `src/**/test_utils.rs`) are overwritten, with the
harness modules from /verif/harness/overlay; every other file compiled by Kani
is byte-identical to /repo at the time of the run (their SHA-256 goes into the
evidence).  The reference models in /verif/harness/spec are copied next to the
crate as `ffuzzy/verif_spec/` so that overlay files can `include!` them.
"""
import hashlib
import os
import shutil
import subprocess
import sys

VERIF = os.path.dirname(os.path.dirname(os.path.abspath(__file__)))
REPO = os.environ.get("VERIF_REPO", "/repo")
CRATE = "ffuzzy"

SLOT_NAMES = ("tests.rs", "test_utils.rs")


def scratch_root():
    root = os.environ.get("VERIF_SCRATCH")
    if not root:
        root = "/var/tmp/ffuzzy-verif.%d" % os.getpid()
    os.makedirs(root, exist_ok=True)
    return root


def cleanup(root):
    shutil.rmtree(root, ignore_errors=True)


def _is_slot(rel):
    return os.path.basename(rel) in SLOT_NAMES


def source_hashes(repo=REPO):
    """SHA-256 of every non-slot file the crate build reads."""
    out = {}
    base = os.path.join(repo, CRATE)
    for dp, dn, fn in os.walk(base):
        dn[:] = [d for d in dn if d not in ("target", ".git")]
        for f in fn:
            p = os.path.join(dp, f)
            rel = os.path.relpath(p, repo)
            if not (rel.endswith(".rs") or rel.endswith(".toml")):
                continue
            if rel.startswith(os.path.join(CRATE, "src")) and _is_slot(rel):
                continue
            with open(p, "rb") as fh:
                out[rel] = hashlib.sha256(fh.read()).hexdigest()
    return out


def tree_digest(repo=REPO):
    h = hashlib.sha256()
    for k, v in sorted(source_hashes(repo).items()):
        h.update(k.encode())
        h.update(v.encode())
    return h.hexdigest()


def make_shadow(dest, extra_files=None, repo=REPO):
    """Create a shadow copy of `repo` at `dest` with the overlay applied.

    extra_files: {relative path under ffuzzy/ : text} written after the overlay
    (used for generated harness instantiations).
    """
    os.makedirs(dest, exist_ok=True)
    subprocess.run(
        ["rsync", "-a", "--delete", "--exclude", "/target", "--exclude", ".git",
         repo.rstrip("/") + "/", dest.rstrip("/") + "/"],
        check=True)
    crate = os.path.join(dest, CRATE)
    src = os.path.join(crate, "src")
    # 1. blank every slot so that stale #![cfg(test)] modules cannot interfere
    for dp, dn, fn in os.walk(src):
        for f in fn:
            if f in SLOT_NAMES:
                with open(os.path.join(dp, f), "w") as fh:
                    fh.write("#![cfg(kani)]\n")
    # 2. overlay
    ov = os.path.join(VERIF, "harness", "overlay")
    for dp, dn, fn in os.walk(ov):
        for f in fn:
            p = os.path.join(dp, f)
            rel = os.path.relpath(p, ov)
            if not _is_slot(rel):
                raise RuntimeError("overlay file %s is not a test-module slot" % rel)
            tgt = os.path.join(crate, rel)
            if not os.path.exists(tgt):
                raise RuntimeError("overlay slot %s does not exist in the repository "
                                   "(module layout changed?)" % rel)
            shutil.copyfile(p, tgt)
    # 3. reference models
    spec_dst = os.path.join(crate, "verif_spec")
    shutil.rmtree(spec_dst, ignore_errors=True)
    shutil.copytree(os.path.join(VERIF, "harness", "spec"), spec_dst)
    # 4. generated files (per-run harness instantiations; always present, possibly empty)
    files = {"verif_gen/gen_pairs.rs": "// no generated instantiations in this run\n"}
    files.update(extra_files or {})
    for rel, text in files.items():
        p = os.path.join(crate, rel)
        os.makedirs(os.path.dirname(p), exist_ok=True)
        with open(p, "w") as fh:
            fh.write(text)
    # 5. offline cargo config
    cfgdir = os.path.join(dest, ".cargo")
    os.makedirs(cfgdir, exist_ok=True)
    with open(os.path.join(cfgdir, "config.toml"), "w") as fh:
        fh.write("[net]\noffline = true\n")
    return crate


if __name__ == "__main__":
    d = sys.argv[1]
    print(make_shadow(d))
