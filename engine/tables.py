"""Registration of all queries (fills queries.ALL) and per-property metadata."""
from . import queries
from .queries import Q, add

M_BLOCK = "src/internals/hash/block/tests.rs"
M_CMP = "src/internals/compare/tests.rs"
M_PA = "src/internals/compare/position_array/tests.rs"
M_ALG = "src/internals/hash/algorithms/tests.rs"
M_HASH = "src/internals/hash/tests.rs"
M_DUAL = "src/internals/hash_dual/tests.rs"
M_GEN = "src/internals/generate/tests.rs"
M_FNV = "src/internals/generate/hashes/partial_fnv/tests.rs"
M_ROLL = "src/internals/generate/hashes/rolling_hash/tests.rs"
M_EASY = "src/internals/generate_easy/tests.rs"
M_STD = "src/internals/generate_easy_std/tests.rs"
M_CEASY = "src/internals/compare_easy/tests.rs"
M_UTILS = "src/internals/utils/tests.rs"


def modpath(module):
    # src/internals/hash/block/tests.rs -> internals::hash::block::tests
    p = module[len("src/"):-len(".rs")]
    return p.replace("/", "::")


def K(name, prop, module, **kw):
    """Kani query whose harness function is `name` in overlay module `module`."""
    hname = kw.pop("fn", name)
    q = Q(name, prop, harness=modpath(module) + "::" + hname, module=module, **kw)
    add(q)
    return q


PROP_META = {}

# ------------------------------------------------------------------------------------
# C20 — block-size and score arithmetic on the entire domain
# ------------------------------------------------------------------------------------
PROP_META["C20"] = {
    "technique": "Kani/CBMC bounded model checking over the compiled real functions; every query "
                 "quantifies over the complete finite domain (no bound)",
    "exhaustive_quick": True, "exhaustive_thorough": True,
    "assumptions": ["rustc/Kani codegen, CBMC 6.11 and CaDiCaL are correct",
                    "const tables are evaluated by rustc (Kani sees their values)"],
}
K("c20_is_valid_full_u32", "C20", M_BLOCK, shape="full domain", bound="none: all 2^32 block sizes",
  enc=["block_size::is_valid"], cap=(120, 300), cost=5)
K("c20_log_roundtrip", "C20", M_BLOCK, shape="full domain", bound="none: all 256 u8 logarithms",
  enc=["block_size::is_log_valid", "block_size::from_log", "block_size::log_from_valid",
       "block_size::log_from_valid_internal"], cap=(120, 300), cost=5)
K("c20_log_from_valid_full", "C20", M_BLOCK, shape="full domain", bound="none: all valid u32 block sizes",
  enc=["block_size::log_from_valid", "block_size::debruijn_index", "LOG_DEBRUIJN_TABLE"], cap=(120, 300), cost=5)
K("c20_block_size_strings", "C20", M_BLOCK, shape="full domain", bound="none: all 31 table entries",
  enc=["block_size::BLOCK_SIZES_STR", "block_size::MAX_BLOCK_SIZE_LEN_IN_CHARS"], cap=(120, 300), cost=5)
K("c20_relations_full", "C20", M_BLOCK, shape="full domain", bound="none: all 31x31 pairs of logarithms",
  enc=["block_size::is_near", "is_near_eq", "is_near_lt", "is_near_gt", "compare_sizes", "cmp",
       "BlockSizeRelation::is_near"], cap=(120, 300), cost=5)
K("c20_raw_score_full", "C20", M_CMP, shape="full domain",
  bound="none: all (l1,l2,d), 7<=l<=64, d<=l1+l2-14",
  enc=["FuzzyHashCompareTarget::raw_score_by_edit_distance", "raw_score_by_edit_distance_internal"],
  assumptions=["documented contract of raw_score_by_edit_distance (lengths 7..=64, d <= l1+l2-14)"],
  cap=(300, 600), cost=30)
K("c20_score_cap_full", "C20", M_CMP, shape="full domain", bound="none: all (n,l1,l2) in 0..=31 x 0..=64 x 0..=64",
  enc=["FuzzyHashCompareTarget::score_cap_on_block_hash_comparison", "score_cap_on_block_hash_comparison_internal",
       "LOG_BLOCK_SIZE_CAPPING_BORDER"], cap=(300, 600), cost=20)
K("c20_u64_lsb_ones_full", "C20", M_UTILS, shape="full domain", bound="none: n in 0..=64",
  enc=["utils::u64_lsb_ones"], cap=(120, 300), cost=5)
K("c20_u64_ilog2_full", "C20", M_UTILS, shape="full domain", bound="none: all non-zero u64",
  enc=["utils::u64_ilog2"], cap=(120, 300), cost=5)


# ------------------------------------------------------------------------------------

def select(prop, tier, seed, qs):
    """Hook for seed-rotated subsets of exhaustive families (quick tier)."""
    return qs


def generated_files(qs):
    """Files generated into the shadow (harness instantiations); {rel path: text}."""
    return {}
