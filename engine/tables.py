"""Registration of all queries (fills queries.ALL) and per-property metadata."""
from . import queries
from .queries import Q, add

M_BLOCK = "src/internals/hash/block/tests.rs"
M_CMP = "src/internals/compare/tests.rs"
M_PA = "src/internals/compare/position_array/tests.rs"
M_ALG = "src/internals/hash/algorithms/tests.rs"
M_HASH = "src/internals/hash/tests.rs"
M_DUAL = "src/internals/hash_dual/tests.rs"
M_GEN = "src/internals/generate/tests.rs"
M_FNV = "src/internals/generate/hashes/partial_fnv/tests.rs"
M_ROLL = "src/internals/generate/hashes/rolling_hash/tests.rs"
M_EASY = "src/internals/generate_easy/tests.rs"
M_STD = "src/internals/generate_easy_std/tests.rs"
M_CEASY = "src/internals/compare_easy/tests.rs"
M_UTILS = "src/internals/utils/tests.rs"


def modpath(module):
    # src/internals/hash/block/tests.rs -> internals::hash::block::tests
    p = module[len("src/"):-len(".rs")]
    return p.replace("/", "::")


def K(name, prop, module, **kw):
    """Kani query whose harness function is `name` in overlay module `module`."""
    hname = kw.pop("fn", name)
    q = Q(name, prop, harness=modpath(module) + "::" + hname, module=module, **kw)
    add(q)
    return q


PROP_META = {}

# ------------------------------------------------------------------------------------
# C20 — block-size and score arithmetic on the entire domain
# ------------------------------------------------------------------------------------
PROP_META["C20"] = {
    "technique": "Kani/CBMC bounded model checking over the compiled real functions; every query "
                 "quantifies over the complete finite domain (no bound)",
    "exhaustive_quick": True, "exhaustive_thorough": True,
    "assumptions": ["rustc/Kani codegen, CBMC 6.11 and CaDiCaL are correct",
                    "const tables are evaluated by rustc (Kani sees their values)"],
}
K("c20_is_valid_full_u32", "C20", M_BLOCK, shape="full domain", bound="none: all 2^32 block sizes",
  enc=["block_size::is_valid"], cap=(120, 300), cost=5)
K("c20_log_roundtrip", "C20", M_BLOCK, shape="full domain", bound="none: all 256 u8 logarithms",
  enc=["block_size::is_log_valid", "block_size::from_log", "block_size::log_from_valid",
       "block_size::log_from_valid_internal"], cap=(120, 300), cost=5)
K("c20_log_from_valid_full", "C20", M_BLOCK, shape="full domain", bound="none: all valid u32 block sizes",
  enc=["block_size::log_from_valid", "block_size::debruijn_index", "LOG_DEBRUIJN_TABLE"], cap=(120, 300), cost=5)
K("c20_block_size_strings", "C20", M_BLOCK, shape="full domain", bound="none: all 31 table entries",
  enc=["block_size::BLOCK_SIZES_STR", "block_size::MAX_BLOCK_SIZE_LEN_IN_CHARS"], cap=(120, 300), cost=5)
K("c20_relations_full", "C20", M_BLOCK, shape="full domain", bound="none: all 31x31 pairs of logarithms",
  enc=["block_size::is_near", "is_near_eq", "is_near_lt", "is_near_gt", "compare_sizes", "cmp",
       "BlockSizeRelation::is_near"], cap=(120, 300), cost=5)
K("c20_raw_score_full", "C20", M_CMP, shape="full domain",
  bound="none: all (l1,l2,d), 7<=l<=64, d<=l1+l2-14",
  enc=["FuzzyHashCompareTarget::raw_score_by_edit_distance", "raw_score_by_edit_distance_internal"],
  assumptions=["documented contract of raw_score_by_edit_distance (lengths 7..=64, d <= l1+l2-14)"],
  cap=(300, 600), cost=30)
K("c20_score_cap_full", "C20", M_CMP, shape="full domain", bound="none: all (n,l1,l2) in 0..=31 x 0..=64 x 0..=64",
  enc=["FuzzyHashCompareTarget::score_cap_on_block_hash_comparison", "score_cap_on_block_hash_comparison_internal",
       "LOG_BLOCK_SIZE_CAPPING_BORDER"], cap=(300, 600), cost=20)
K("c20_u64_lsb_ones_full", "C20", M_UTILS, shape="full domain", bound="none: n in 0..=64",
  enc=["utils::u64_lsb_ones"], cap=(120, 300), cost=5)
K("c20_u64_ilog2_full", "C20", M_UTILS, shape="full domain", bound="none: all non-zero u64",
  enc=["utils::u64_ilog2"], cap=(120, 300), cost=5)


# ------------------------------------------------------------------------------------

def select(prop, tier, seed, qs):
    """Hook for seed-rotated subsets of exhaustive families (quick tier)."""
    return qs


def generated_files(qs):
    """Files generated into the shadow (harness instantiations); {rel path: text}."""
    return {}


# ------------------------------------------------------------------------------------
# C08 / C09 / C17 (position arrays)
# ------------------------------------------------------------------------------------
PA_SRC = "ffuzzy/src/internals/compare/position_array.rs"


def pa_rules(n_ed=None, n_cs=None, n_init=None):
    r = []
    if n_ed is not None:
        r.append((r"edit_distance_internal", n_ed))
    if n_cs is not None:
        r.append((r"has_common_substring_internal", n_cs))
    if n_init is not None:
        # loops over the string (u8 slices); the loops over the 64 masks (Iter<u64>) keep the default 66
        r.append((r"init_from_partial", n_init))
        r.append((r"is_equiv_internal", n_init))
        r.append((r"Iter<'_, u8> as core::iter::Iterator>::all::<.closure@" + PA_SRC, n_init))
        r.append((r"Enumerate<core::slice::Iter<'_, u8>>", n_init))
    return r


ASSUME_SYM = "block-hash symbols < 64 (documented range; 0x40 is the parser's sentinel)"
ASSUME_MASKS = ("position arrays consumed by the function under test are the reference masks of the string "
                "(spec_masks); c17_pa_init_* proves the real constructor produces exactly those")

PROP_META["C08"] = {
    "technique": "Kani/CBMC BMC of edit_distance_internal against a textbook LCS DP on symbolic strings "
                 "(bounded length) + SMT (z3, cvc5) inductive step of the bit-parallel recurrence extracted "
                 "from the MIR at the full 64-bit width",
    "assumptions": ["reference model: row DP for LCS (harness/spec/lcs.rs)"],
}
for (L, alpha, tiers, cap, cost) in [(4, 64, ("quick", "thorough"), (420, 900), 120),
                                     (5, 64, ("thorough",), (0, 1500), 300),
                                     (6, 64, ("thorough",), (0, 2400), 500),
                                     (8, 4, ("thorough",), (0, 2400), 500)]:
    K("c08_ed_l%d_a%d" % (L, alpha), "C08", M_PA, cfg="release", tiers=tiers,
      unwindset=pa_rules(n_ed=L + 1), cap=cap, cost=cost, mem=10,
      shape="BMC", bound="both strings <= %d symbols over %d symbols; both argument orders" % (L, alpha),
      outside="longer strings (covered by the inductive 64-bit step, not by this query)",
      enc=["BlockHashPositionArrayImplInternal::edit_distance_internal"],
      assumptions=[ASSUME_SYM, ASSUME_MASKS, "debug assertions off (is_valid() debug_assert not compiled)"])
K("c08_ed_long_a_short_b", "C08", M_PA, cfg="release", tiers=("thorough",),
  unwindset=pa_rules(n_ed=4), cap=(0, 1800), cost=400, mem=10,
  shape="BMC", bound="|a| in {63,64} over 4 symbols, |b| <= 3 (carry chains through the top bits)",
  enc=["BlockHashPositionArrayImplInternal::edit_distance_internal"], assumptions=[ASSUME_SYM, ASSUME_MASKS])
K("c08_checked_wrapper", "C08", M_PA, cfg="release", cap=(420, 900), cost=100, mem=10,
  shape="BMC", bound="lengths (2,2) concrete, contents symbolic; real init_from + is_valid",
  enc=["BlockHashPositionArrayImpl::edit_distance", "BlockHashPositionArray::init_from",
       "BlockHashPositionArrayData::is_valid"], assumptions=[ASSUME_SYM])

PROP_META["C09"] = {
    "technique": "Kani/CBMC BMC of has_common_substring_internal against 'exists a shared 7-gram' on symbolic "
                 "strings / arbitrary masks (small scope: bounded lengths, small alphabets for the longer ones)",
    "assumptions": ["small-alphabet argument (DESIGN.md C09): the scan touches symbols only through rep[sym]"],
}
for (LA, LB, alpha, tiers, cap, cost) in [(10, 9, 64, ("quick", "thorough"), (420, 1200), 120),
                                          (12, 12, 4, ("quick", "thorough"), (420, 1200), 100),
                                          (16, 12, 4, ("thorough",), (0, 1800), 300),
                                          (16, 16, 2, ("thorough",), (0, 1800), 300),
                                          (64, 16, 4, ("thorough",), (0, 2400), 600)]:
    K("c09_cs_a%d_b%d_s%d" % (LA, LB, alpha), "C09", M_PA, cfg="release", tiers=tiers,
      unwindset=pa_rules(n_cs=LB), cap=cap, cost=cost, mem=10,
      shape="BMC", bound="|a| <= %d, |b| <= %d over %d symbols" % (LA, LB, alpha),
      outside="|b| > %d" % LB, enc=["BlockHashPositionArrayImplInternal::has_common_substring_internal"],
      assumptions=[ASSUME_SYM, ASSUME_MASKS])
K("c09_masks_b12_s4_len16", "C09", M_PA, cfg="release", unwindset=pa_rules(n_cs=12),
  cap=(420, 1200), cost=60, shape="BMC",
  bound="arbitrary masks for 4 symbols without bits >= len <= 16, |b| <= 12",
  enc=["BlockHashPositionArrayImplInternal::has_common_substring_internal"],
  assumptions=["no mask bits at positions >= len"])
K("c09_masks_b16_s4_len64", "C09", M_PA, cfg="release", tiers=("thorough",),
  unwindset=pa_rules(n_cs=16), cap=(0, 2400), cost=600, shape="BMC",
  bound="arbitrary masks for 4 symbols, len <= 64, |b| <= 16",
  enc=["BlockHashPositionArrayImplInternal::has_common_substring_internal"],
  assumptions=["no mask bits at positions >= len"])
K("c09_checked_wrapper", "C09", M_PA, cfg="release", tiers=("thorough",), cap=(0, 2400), cost=600, mem=10,
  unwindset=pa_rules(n_cs=9),
  shape="BMC", bound="lengths (8,8) concrete, contents symbolic; real init_from + is_valid",
  enc=["BlockHashPositionArrayImpl::has_common_substring", "BlockHashPositionArray::init_from"],
  assumptions=[ASSUME_SYM])


# ------------------------------------------------------------------------------------
# kernels in hash/algorithms.rs: C06 (normalize, verify), C04 (parser kernels), C05 (base64)
# ------------------------------------------------------------------------------------
ALG_SRC = "ffuzzy/src/internals/hash/algorithms.rs"


def alg_rules(n_norm=None, n_verify=None, n_text=None, n_insert=None):
    r = []
    if n_norm is not None:
        r.append((r"normalize_block_hash_in_place_internal", n_norm))
    if n_verify is not None:
        # loop over blockhash[..len]; the zero-tail scan (Iterator::any over [len..N]) keeps the default 66
        r.append((r"verify_block_hash_internal", n_verify))
    if n_text is not None:
        r.append((r"parse_block_hash_from_bytes|parse_block_size_from_bytes", n_text))
    if n_insert is not None:
        r.append((r"insert_block_hash_into_bytes", n_insert))
    return r


PROP_META["C06"] = {
    "technique": "Kani/CBMC BMC of the normalization kernels (<32> and <64> instantiations) against a "
                 "local-criterion model on symbolic block hashes (family A: unrestricted content up to a length "
                 "bound; family B: full capacity with one planted run of symbolic position and length), plus "
                 "route equivalence on symbolic hash objects",
    "assumptions": ["reference model spec_norm: symbol i is dropped iff its three predecessors equal it"],
}
for (N, B, tiers, cap, cost) in [(32, 16, ("quick",), (420, 0), 60), (32, 32, ("thorough",), (0, 1500), 300),
                                 (64, 16, ("quick",), (420, 0), 60), (64, 32, ("thorough",), (0, 1800), 500)]:
    K("c06_norm%d_b%d" % (N, B), "C06", M_ALG, cfg="release", tiers=tiers, cap=cap, cost=cost,
      unwindset=alg_rules(n_norm=B + 1), shape="BMC",
      bound="normalize kernel ::<%d>, every content of raw length <= %d over 64 symbols" % (N, B),
      outside="raw length > %d with three or more long runs" % B,
      enc=["normalize_block_hash_in_place_internal::<%d>" % N], assumptions=[ASSUME_SYM])
# ladder for ::<64> at larger bounds (thorough): 64 -> 48
K("c06_norm64_b64", "C06", M_ALG, cfg="release", tiers=("thorough",), cap=(0, 2400), cost=2400, mem=14,
  unwindset=alg_rules(n_norm=65), ladder="c06_norm64_big", rung=64, shape="BMC",
  bound="normalize kernel ::<64>, every content of raw length <= 64 (full capacity)",
  enc=["normalize_block_hash_in_place_internal::<64>"], assumptions=[ASSUME_SYM])
K("c06_norm64_b48", "C06", M_ALG, cfg="release", tiers=("thorough",), cap=(0, 2400), cost=1500, mem=14,
  unwindset=alg_rules(n_norm=49), ladder="c06_norm64_big", rung=48, shape="BMC",
  bound="normalize kernel ::<64>, every content of raw length <= 48",
  enc=["normalize_block_hash_in_place_internal::<64>"], assumptions=[ASSUME_SYM])
for N in (32, 64):
    K("c06_norm%d_planted" % N, "C06", M_ALG, cfg="release", tiers=("quick", "thorough") if N == 32 else ("thorough",),
      cap=(420, 2400), cost=200, unwindset=alg_rules(n_norm=N + 1), shape="BMC",
      bound="normalize kernel ::<%d> at full capacity: one run of symbolic length 1..=%d at a symbolic position, "
            "run-free neighbours" % (N, N),
      enc=["normalize_block_hash_in_place_internal::<%d>" % N], assumptions=[ASSUME_SYM])
K("c06_norm_noop", "C06", M_ALG, cfg="release", cap=(300, 600), cost=20, shape="BMC",
  bound="arbitrary 64-byte array and length (originally_normalized = true is the identity)",
  enc=["normalize_block_hash_in_place_internal::<64>", "normalize_block_hash_in_place::<64,true>"])
K("c06_verify32_b32", "C06", M_ALG, cfg="release", cap=(420, 900), cost=70, unwindset=alg_rules(n_verify=34),
  shape="BMC", bound="verify kernel ::<32>, arbitrary bytes, length <= 32, all flag combinations",
  enc=["verify_block_hash_internal::<32>"],
  assumptions=["symbols < 64 assumed only for (verify_normalization && !verify_data_range_in)"])
K("c06_verify64_b64", "C06", M_ALG, cfg="release", tiers=("thorough",), cap=(0, 1800), cost=300,
  unwindset=alg_rules(n_verify=66), shape="BMC",
  bound="verify kernel ::<64>, arbitrary bytes, length <= 64, all flag combinations",
  enc=["verify_block_hash_internal::<64>"])
K("c06_verify64_b16", "C06", M_ALG, cfg="release", tiers=("quick",), cap=(420, 0), cost=60,
  unwindset=alg_rules(n_verify=18), shape="BMC",
  bound="verify kernel ::<64>, arbitrary bytes, length <= 16, all flag combinations",
  enc=["verify_block_hash_internal::<64>"])
for (nm, S, m, tiers, cap, cost) in [("c06_routes_short_m6", "short", 6, ("quick",), (600, 0), 200),
                                     ("c06_routes_short_m8", "short", 8, ("thorough",), (0, 1800), 500),
                                     ("c06_routes_long_m8", "long", 8, ("thorough",), (0, 1800), 500),
                                     ("c06_routes_short_m12", "short", 12, ("thorough",), (0, 3000), 1200),
                                     ("c06_routes_long_m12", "long", 12, ("thorough",), (0, 3000), 1200),
                                     ("c06_is_normalized_short_m6", "short", 6, ("quick", "thorough"), (600, 1800), 200),
                                     ("c06_is_normalized_long_m10", "long", 10, ("thorough",), (0, 3000), 900)]:
    K(nm, "C06", M_HASH, cfg="release", tiers=tiers, cap=cap, cost=cost, mem=12,
      unwindset=alg_rules(n_norm=m + 1, n_verify=m + 2), shape="BMC",
      bound="normalization routes on %s hash objects, block hashes <= %d symbols" % (S, m),
      outside="object-level wrappers with longer block hashes (they only forward to the kernels)",
      enc=["FuzzyHashData::normalize", "normalize_in_place", "clone_normalized", "from_raw_form", "From<raw>",
           "is_normalized"],
      assumptions=[ASSUME_SYM, "source object valid (spec_valid)"])
for nm in ("c06_reinterpret_short_full", "c06_reinterpret_long_full"):
    K(nm, "C06", M_HASH, cfg="release", tiers=("quick", "thorough") if "short" in nm else ("thorough",),
      cap=(600, 1800), cost=200, mem=12, shape="BMC",
      bound="to_raw_form / from_normalized / From / into_mut_raw_form (dirty destination) at full capacity",
      enc=["to_raw_form", "from_normalized", "From<norm> for raw", "into_mut_raw_form"],
      assumptions=["source object valid and normalized (spec_valid)"])

PROP_META["C05"] = {
    "technique": "Kani/CBMC BMC of store_into_bytes / len_in_str / to_string / Display on symbolic valid objects "
                 "against an independent text model, symbolic buffer length and contents",
    "assumptions": ["reference model spec_text (decimal of 3<<n, RFC 4648 alphabet)"],
}
K("c05_base64_tables", "C05", M_ALG, shape="full domain", bound="none: all 256 bytes / all 64 symbols",
  enc=["base64::base64_index", "BASE64_TABLE_U8", "BASE64_REV_TABLE_U8"], cap=(120, 300), cost=5)
K("c05_insert_block_hash_b16", "C05", M_ALG, cfg="release", tiers=("quick",), cap=(420, 0), cost=60,
  unwindset=alg_rules(n_insert=18), shape="BMC", bound="block hash <= 16 symbols into a 72-byte buffer",
  enc=["insert_block_hash_into_bytes::<64>"], assumptions=[ASSUME_SYM])
K("c05_insert_block_hash_b64", "C05", M_ALG, cfg="release", tiers=("thorough",), cap=(0, 1200), cost=200,
  unwindset=alg_rules(n_insert=66), shape="BMC", bound="block hash <= 64 symbols (full) into a 72-byte buffer",
  enc=["insert_block_hash_into_bytes::<64>"], assumptions=[ASSUME_SYM])
for (nm, tiers, cap, cost, m) in [("c05_store_short_raw_m8", ("quick", "thorough"), (480, 1200), 200, 8),
                                  ("c05_store_long_norm_m8", ("quick", "thorough"), (480, 1200), 200, 8)]:
    K(nm, "C05", M_HASH, cfg="release", tiers=tiers, cap=cap, cost=cost, mem=12,
      unwindset=alg_rules(n_insert=m + 2), shape="BMC",
      bound="store_into_bytes: block hashes <= %d symbols, buffer of every length 0..=text+8" % m,
      enc=["FuzzyHashData::store_into_bytes", "len_in_str", "MAX_LEN_IN_STR", "insert_block_hash_into_bytes"],
      assumptions=[ASSUME_SYM, "object valid (spec_valid)"])
for S in ("short_raw", "long_raw", "long_norm"):
    for (sfx, m, cap) in [("full", 64, 1500), ("m32", 32, 1500), ("m16", 16, 1200)]:
        K("c05_store_%s_%s" % (S, sfx), "C05", M_HASH, cfg="release", tiers=("thorough",), cap=(0, cap), cost=900, mem=12,
          unwindset=alg_rules(n_insert=m + 2), shape="BMC", ladder="c05_store_" + S, rung=m,
          bound="store_into_bytes: block hashes <= %d symbols%s, buffer of every length 0..=text+8"
                % (m, " (full capacity)" if sfx == "full" else ""),
          enc=["FuzzyHashData::store_into_bytes", "len_in_str", "MAX_LEN_IN_STR", "insert_block_hash_into_bytes"],
          assumptions=[ASSUME_SYM, "object valid (spec_valid)"])
for S in ("short_raw", "long_norm"):
    for m in (4, 1):
        K("c05_alloc_forms_%s_m%d" % (S, m), "C05", M_HASH, cfg="release", tiers=("thorough",), cap=(0, 1200), cost=900, mem=12,
          unwindset=alg_rules(n_insert=m + 2), shape="BMC", ladder="c05_alloc_" + S, rung=m,
          bound="to_string / String::from / Display: block hashes <= %d symbols" % m,
          outside="allocating paths with longer block hashes",
          enc=["FuzzyHashData::to_string", "From<FuzzyHashData> for String", "Display::fmt"],
          assumptions=[ASSUME_SYM, "object valid (spec_valid)"])

PROP_META["C04"] = {
    "technique": "Kani/CBMC BMC of the parser kernels and of the from_bytes drivers of all six types on fully "
                 "symbolic byte strings (bounded length) against an independent grammar model",
    "assumptions": ["reference model spec_grammar (harness/spec/grammar.rs)"],
}
K("c04_block_size_field", "C04", M_ALG, cap=(420, 900), cost=40, unwindset=alg_rules(n_text=15), shape="BMC",
  bound="block size field: every byte string of <= 13 bytes",
  outside="digit strings longer than 13 (all are 'too large')",
  enc=["parse_block_size_from_bytes", "block_size::is_valid"])
for (nm, N, T, norm, tiers, cap, cost) in [
        ("c04_bh32_t12_raw", 32, 12, False, ("quick",), (420, 0), 30),
        ("c04_bh32_t12_norm", 32, 12, True, ("quick",), (420, 0), 60),
        ("c04_bh32_t40_raw", 32, 40, False, ("quick", "thorough"), (480, 1200), 60),
        ("c04_bh32_t40_norm", 32, 40, True, ("thorough",), (0, 2400), 400),
        ("c04_bh64_t16_raw", 64, 16, False, ("quick",), (420, 0), 40),
        ("c04_bh64_t16_norm", 64, 16, True, ("quick",), (420, 0), 80),
        ("c04_bh64_t72_raw", 64, 72, False, ("thorough",), (0, 1800), 200),
        ("c04_bh64_t40_norm", 64, 40, True, ("thorough",), (0, 2400), 600)]:
    K(nm, "C04", M_ALG, tiers=tiers, cap=cap, cost=cost, mem=12, unwindset=alg_rules(n_text=T + 2), shape="BMC",
      bound="block hash field kernel ::<%d>, %s, every byte string of <= %d bytes"
            % (N, "collapsing" if norm else "plain", T),
      enc=["parse_block_hash_from_bytes::<_,%d>" % N, "base64::base64_index"])
K("c04_bh64_t72_norm", "C04", M_ALG, tiers=("thorough",), cap=(0, 3000), cost=3000, mem=14,
  unwindset=alg_rules(n_text=74), ladder="c04_bh64_norm_big", rung=72, shape="BMC",
  bound="block hash field kernel ::<64>, collapsing, every byte string of <= 72 bytes",
  enc=["parse_block_hash_from_bytes::<_,64>"])
for (S, s1, s2, norm) in [("short_norm", 64, 32, True), ("short_raw", 64, 32, False),
                          ("long_norm", 64, 64, True), ("long_raw", 64, 64, False)]:
    K("c04_driver_%s_t10" % S, "C04", M_HASH, tiers=("quick",), cap=(900, 0), cost=200, mem=12,
      unwindset=alg_rules(n_text=12, n_verify=12), shape="BMC",
      bound="from_bytes_with_last_index of FuzzyHashData<%d,%d,%s>: every byte string of <= 10 bytes" % (s1, s2, norm),
      enc=["FuzzyHashData::from_bytes_with_last_index", "from_bytes", "hash_from_bytes_with_last_index_internal_template",
           "parse_block_size_from_bytes", "parse_block_hash_from_bytes", "block_size::log_from_valid_internal"])
    K("c04_driver_%s_t16" % S, "C04", M_HASH, tiers=("thorough",), cap=(0, 2400), cost=900, mem=12,
      unwindset=alg_rules(n_text=18, n_verify=18), shape="BMC",
      bound="from_bytes_with_last_index of FuzzyHashData<%d,%d,%s>: every byte string of <= 16 bytes" % (s1, s2, norm),
      outside="texts > 16 bytes that are not of the capacity-class shape",
      enc=["FuzzyHashData::from_bytes_with_last_index", "from_bytes"])
for S in ("short_norm", "short_raw"):
    K("c04_capacity_bh2_%s_t40" % S, "C04", M_HASH, tiers=("thorough",), cap=(0, 2400), cost=900, mem=12,
      unwindset=alg_rules(n_text=42, n_verify=42), shape="BMC",
      bound="capacity class: '3::' + every byte string of <= 37 bytes (block hash 2 of the short type reaches and "
            "exceeds 32 symbols, raw and collapsed)",
      enc=["FuzzyHashData::from_bytes_with_last_index"])


# ------------------------------------------------------------------------------------
# Generator: C01, C03, C12, C13 (inductive step / digest per concrete active range)
# ------------------------------------------------------------------------------------
GEN_ENC = ["Generator::update_by_byte (generator_update_template!)", "BlockHashContext::reset",
           "PartialFNVHash::update_by_byte/value", "RollingHash::update_by_byte/value"]
ASSUME_GEN = ["pre-state: arbitrary generator satisfying the representation invariant inv(G) for the concrete "
              "active range (harness/overlay/.../generate/tests.rs); inv is itself re-established by every query",
              "ghost eventual size F >= input_size; a hint, if present, equals F; eliminated levels are justified "
              "(192*2^(start-1) < F and level start has >= 32 pieces) -- all three are re-established by the step",
              "the rolling hash is an opaque component here: its post-update value is handed to the pure step; "
              "that it is the stated function of the last 7 bytes is C19 (SMT obligation)",
              "reference model S* = harness/spec/ctph.rs (pure CTPH), validated natively against the repository's "
              "libfuzzy-generated vectors by dev/validate_model"]
ALL_PAIRS = [(s, e) for s in range(31) for e in range(s + 1, 32)]
BOUNDARY_PAIRS = [(0, 1), (0, 2), (26, 31), (29, 31), (30, 31)]


def gen_q(kind, st, en, prop, tiers, cap, cost, extra_name=""):
    name = "%s_%d_%d" % (kind, st, en)
    shapes = {
        "c01_step": ("inductive step", "one byte (update_by_byte) from ANY invariant state with active range "
                     "[%d,%d): invariant and simulation with pure CTPH re-established" % (st, en)),
        "c01_digest_trunc": ("inductive step", "finalize() from ANY invariant end state with active range [%d,%d) == "
                             "pure digest (truncated form)" % (st, en)),
        "c01_digest_long": ("inductive step", "finalize_without_truncation() and finalize_raw::<false,64,32>() from ANY "
                            "invariant end state with active range [%d,%d) == pure digest / OutputOverflow" % (st, en)),
        "c03_two_slice": ("inductive step", "update(&[c1,c2]) (counter runs ahead) from ANY invariant state [%d,%d)" % (st, en)),
        "c03_two_iter": ("inductive step", "update_by_iter over two bytes from ANY invariant state [%d,%d)" % (st, en)),
        "c03_two_addslice": ("inductive step", "+= &[u8] of two bytes from ANY invariant state [%d,%d)" % (st, en)),
        "c03_two_addarray": ("inductive step", "+= &[u8; 2] from ANY invariant state [%d,%d)" % (st, en)),
        "c03_one_slice": ("inductive step", "update(&[c]) == update_by_byte(c) bit for bit, from ANY invariant state [%d,%d)" % (st, en)),
        "c03_one_iter": ("inductive step", "update_by_iter(once(c)) == update_by_byte(c) bit for bit, from ANY invariant state [%d,%d)" % (st, en)),
        "c03_one_addslice": ("inductive step", "+= &[c][..] == update_by_byte(c) bit for bit, from ANY invariant state [%d,%d)" % (st, en)),
        "c03_one_addarray": ("inductive step", "+= &[c; 1] == update_by_byte(c) bit for bit, from ANY invariant state [%d,%d)" % (st, en)),
        "c03_one_addbyte": ("inductive step", "+= c == update_by_byte(c) bit for bit, from ANY invariant state [%d,%d)" % (st, en)),
    }
    shape, bound = shapes[kind]
    enc = list(GEN_ENC)
    if "digest" in kind:
        enc = ["Generator::finalize_raw_internal", "guess_output_log_block_size", "get_log_block_size_from_input_size",
               "finalize", "finalize_without_truncation", "finalize_raw"]
    # CBMC 6.11's array field sensitivity havocs byte 0 of a memcpy destination when the copy is merged with
    # an element store from another branch (spurious, non-replayable counterexamples in finalize_raw_internal;
    # see DESIGN.md 0.3): the digest queries switch it off.
    q = Q(name, prop, harness=modpath(M_GEN) + "::" + name, module=M_GEN, cfg="release", tiers=tiers, cap=cap,
          cost=cost, mem=14 if "digest" in kind else 10, unwindset=[("@memcmp.0", 70)],
          cbmc_args=["--no-array-field-sensitivity"] if "digest" in kind else None, shape=shape, bound=bound + "; no bound on input length, content or size",
          outside="soundness of inv/alpha as written; S* == ssdeep (validated on vectors only)",
          enc=enc, assumptions=ASSUME_GEN, gen={"kind": kind, "st": st, "en": en})
    add(q)
    return q


GEN_CALL = {
    "c01_step": "step_byte(%d, %d)", "c01_digest_trunc": "digest_trunc(%d, %d)", "c01_digest_long": "digest_long(%d, %d)",
    "c03_two_slice": "step_two(%d, %d, 0)", "c03_two_iter": "step_two(%d, %d, 1)",
    "c03_two_addslice": "step_two(%d, %d, 2)", "c03_two_addarray": "step_two(%d, %d, 3)",
    "c03_one_slice": "step_one_item(%d, %d, 0)", "c03_one_iter": "step_one_item(%d, %d, 1)",
    "c03_one_addslice": "step_one_item(%d, %d, 2)", "c03_one_addarray": "step_one_item(%d, %d, 3)",
    "c03_one_addbyte": "step_one_item(%d, %d, 4)",
}

# Cost grows steeply with the width of the active range (number of symbolic contexts): width 5 ~ 350 s,
# width >= 16 does not finish (memory).  The thorough tier therefore attempts the ranges of width <= GEN_MAX_WIDTH
# (220 of the 496); wider ranges are registered but not scheduled, and are listed as outside the claim.
import os as _os
GEN_MAX_WIDTH = int(_os.environ.get("VERIF_GEN_MAXWIDTH", "8"))
for (st, en) in ALL_PAIRS:
    tiers = ("quick", "thorough") if en - st <= GEN_MAX_WIDTH else ()
    gen_q("c01_step", st, en, "C01", tiers, (900, 2400), 100 + 60 * (en - st))
    # width-1 ranges above level 0 cannot be END states (their only level would have to hold >= 32 pieces and none):
    # the digest obligations would be vacuous there, so they are not generated
    if en - st >= 2 or st == 0:
        gen_q("c01_digest_trunc", st, en, "C01", tiers, (900, 2400), 200 + 60 * (en - st))
        gen_q("c01_digest_long", st, en, "C01", tiers, (900, 2400), 200 + 60 * (en - st))
for (st, en) in [(0, 1), (0, 2), (2, 5), (26, 31), (29, 31), (30, 31), (7, 8), (12, 18)]:
    for kind in ("c03_one_slice", "c03_one_iter", "c03_one_addslice", "c03_one_addarray", "c03_one_addbyte"):
        quick = ((st, en) == (2, 5)) or ((st, en) in ((0, 2), (29, 31)) and kind in ("c03_one_slice", "c03_one_iter"))
        gen_q(kind, st, en, "C03", ("quick", "thorough") if quick else ("thorough",), (900, 2400), 400)
    for kind in ("c03_two_slice", "c03_two_iter", "c03_two_addslice", "c03_two_addarray"):
        gen_q(kind, st, en, "C03", ("thorough",), (900, 3600), 1500)

PROP_META["C01"] = {
    "technique": "Kani/CBMC inductive single-step differential against a pure-CTPH reference model: arbitrary "
                 "invariant generator state, one real update / finalize, simulation relation re-established; one "
                 "query per concrete active block-size range (496 ranges); plus full-domain trigger lemma and "
                 "bounded BMC from the public API",
    "exhaustive_thorough": False,
    "assumptions": ["see per-query assumptions (inv, ghost size, opaque rolling hash, S*)",
                    "active ranges wider than 8 levels (276 of the 496) are not attempted: pre-states with that many "
                    "symbolic contexts exhaust memory; transitions INTO such ranges are covered (the post-state range is "
                    "symbolic), steps FROM them are outside the claim"],
}
PROP_META["C03"] = {
    "technique": "Kani/CBMC inductive step per update form (slice / iterator / += forms, size counter running "
                 "ahead), same simulation relation as C01; bit-identity of clone/finalize; wiring of hash_buf",
    "assumptions": ["chunks longer than 2 bytes rest on the stated argument in DESIGN.md C03 (a chunk is a "
                    "sequence of single-byte iterations with a leading counter)"],
}
PROP_META["C12"] = {
    "technique": "Kani/CBMC: set_fixed_input_size / reset / finalize error contract from an arbitrary (reset: "
                 "completely arbitrary) generator state, tied to the C01 simulation invariant",
}
PROP_META["C13"] = {
    "technique": "Kani/CBMC: block-size border arithmetic on every size 0..=192GiB+1 (complete domain), limit "
                 "accept/reject, and the C01 inductive queries for the ranges that reach the largest block size "
                 "and the last-piece hash",
}
K("c01_trigger_depth_lemma", "C01", M_GEN, cfg="release", shape="full domain",
  bound="none: all 2^32 rolling values x 31 levels", cap=(600, 1800), cost=200,
  enc=["spec_trigger_depth_fast vs definition (model lemma used by the step queries)"])
K("c01_new_is_base_case", "C01", M_GEN, fn="c12_new_and_reset", cfg="release", shape="inductive step",
  bound="base case: Generator::new() / reset() satisfy inv and correspond to the initial pure state",
  cap=(600, 1200), cost=100, enc=["Generator::new", "Generator::reset", "BlockHashContext::new/reset"])
K("c01_bmc_api_l2", "C01", M_GEN, cfg="release", tiers=("thorough",), shape="BMC", mem=14,
  bound="public API from the real initial state: every input of <= 2 bytes, every split point, hint",
  cap=(0, 2400), cost=900, enc=["Generator::update", "update_by_iter", "+=", "finalize", "finalize_without_truncation",
                                "set_fixed_input_size_in_usize"])
K("c03_trivial_forms", "C03", M_GEN, cfg="release", shape="inductive step", cap=(600, 1500), cost=300,
  unwindset=[("@memcmp.0", 70)],
  bound="+= u8 == update_by_byte; empty slice / iterator are no-ops; arbitrary invariant state [2,4)",
  enc=["AddAssign<u8>", "Generator::update", "update_by_iter"], assumptions=ASSUME_GEN[:1])
K("c03_finalize_is_pure", "C03", M_GEN, cfg="release", shape="inductive step", cap=(600, 1500), cost=300,
  unwindset=[("@memcmp.0", 70)],
  bound="clone / finalize* leave the generator bit-identical; arbitrary invariant state [2,4)",
  enc=["Generator::clone", "finalize", "finalize_without_truncation", "finalize_raw"], assumptions=ASSUME_GEN[:1])
K("c03_hash_buf_wiring_l6", "C03", M_EASY, cfg="release", shape="BMC", cap=(900, 2400), cost=100, mem=12, stubbing=True,
  unwindset=[(r"generate::Generator::update", 8)],
  bound="hash_buf on every buffer of <= 6 bytes: declares exactly the length before feeding, one update with exactly the buffer, "
        "returns what finalize returns",
  enc=["generate_easy::hash_buf"],
  assumptions=["Generator::set_fixed_input_size_in_usize / update / finalize replaced by a recording model (Kani stubbing)"])
K("c03_hash_buf_real_tiny", "C03", M_EASY, cfg="release", shape="BMC", cap=(900, 2400), cost=200, mem=12,
  bound="the real hash_buf on the empty buffer and on one concrete byte", enc=["generate_easy::hash_buf", "Generator::*"])
K("c12_new_and_reset", "C12", M_GEN, cfg="release", shape="inductive step", cap=(600, 1200), cost=100,
  bound="reset() from a COMPLETELY arbitrary generator (no invariant assumed)",
  enc=["Generator::reset", "Generator::new"])
K("c12_set_fixed_input_size", "C12", M_GEN, cfg="release", shape="inductive step", cap=(600, 1500), cost=300,
  bound="set_fixed_input_size(_in_usize)(n) for every u64 n from an arbitrary invariant state [0,3)",
  enc=["Generator::set_fixed_input_size", "set_fixed_input_size_in_usize", "get_log_block_size_from_input_size"],
  assumptions=ASSUME_GEN[:1])
K("c12_hint_keeps_limit_ok", "C12", M_GEN, cfg="release", shape="full domain", cap=(300, 600), cost=10,
  bound="every hint n <= 192 GiB on a fresh generator: fork limit covers every level the pure digest can select",
  enc=["Generator::set_fixed_input_size"])
K("c12_finalize_errors", "C12", M_GEN, cfg="release", shape="inductive step", cap=(600, 1500), cost=200,
  bound="finalize error contract from an arbitrary invariant state [1,4), every size / hint",
  enc=["Generator::finalize_raw_internal", "may_warn_about_small_input_size", "GeneratorError::is_size_too_large_error"],
  assumptions=ASSUME_GEN[:1])
K("c13_initial_level_full", "C13", M_GEN, cfg="release", shape="full domain", cap=(300, 600), cost=10,
  bound="none: every size 0..=192GiB+1 and every start level",
  enc=["Generator::get_log_block_size_from_input_size", "utils::u64_ilog2"])
K("c13_finalize_limits", "C13", M_GEN, fn="c12_finalize_errors", cfg="release", shape="inductive step",
  cap=(600, 1500), cost=200,
  bound="exactly 192 GiB accepted, one byte more rejected, small-input predicate == size < 4097; any invariant state [1,4)",
  enc=["Generator::finalize_raw_internal", "MAX_INPUT_SIZE", "may_warn_about_small_input_size"],
  assumptions=ASSUME_GEN[:1])
K("c13_u64_ilog2_full", "C13", M_UTILS, fn="c20_u64_ilog2_full", shape="full domain", bound="none: all non-zero u64",
  enc=["utils::u64_ilog2"], cap=(120, 300), cost=5)
# C13 re-uses the C01 inductive queries for the ranges reaching index 30 / the last-piece hash
for (st, en) in [(26, 31), (29, 31), (30, 31), (24, 31)]:
    for kind in ("c01_step", "c01_digest_trunc", "c01_digest_long"):
        quick = (st, en) in ((29, 31), (30, 31)) and kind != "c01_digest_long"
        q = gen_q(kind, st, en, "C13", ("quick", "thorough") if quick else ("thorough",), (900, 1800), 300)
        q.name = "c13_" + q.name
PROP_META["C18"] = {
    "technique": "Kani/CBMC BMC of hash_stream_common with a scripted nondeterministic Read implementation (arbitrary "
                 "short reads, arbitrary error kind at an arbitrary read) and a recording model of the generator (stubbing)",
    "assumptions": ["Read contract: Ok(n) with 1 <= n <= buf.len() while data remains, Ok(0) only at the end; stream <= 6 bytes",
                    "hash_file's File::open / metadata (operating-system I/O) are outside this technique"],
}
for nm in ("c18_stream_no_hint", "c18_stream_with_hint"):
    K(nm, "C18", M_STD, cfg="release", shape="BMC", cap=(900, 2400), cost=300, mem=12, stubbing=True,
      unwindset=[(r"hash_stream_common", 10), (r"Generator::update$|Generator>::update$|generate::Generator::update", 5)],
      bound="a symbolic stream of <= 6 bytes delivered in arbitrary chunks of 1..=3 bytes (<= 7 reads), failing with an "
            "arbitrary error kind (4 kinds) at an arbitrary read or never; arbitrary declared size <= 8",
      outside="reads longer than 3 bytes (32 KiB buffer boundary); hash_file's OS half; the generator itself (stubbed: C01/C03)",
      enc=["generate_easy_std::hash_stream_common", "GeneratorOrIOError: From<io::Error>, From<GeneratorError>"],
      assumptions=["Generator::update / Generator::finalize replaced by a recording model (Kani stubbing): update appends "
                   "to a log, finalize spells out the log or reports FixedSizeMismatch against the declared size"])
K("c18_hash_stream_empty_real", "C18", M_STD, cfg="release", shape="BMC", cap=(900, 2400), cost=200, mem=12,
  bound="hash_stream (real generator, no stubs) on the empty stream", enc=["generate_easy_std::hash_stream", "hash_stream_common"])
PROP_META["C19"] = {
    "technique": "Kani/CBMC full-domain query for the FNV step (all 2^32 states x 256 bytes); SMT (z3+cvc5) "
                 "inductive step of the rolling hash extracted from MIR; Kani BMC for the update forms",
}
K("c19_fnv_step_full_domain", "C19", M_FNV, shape="full domain", bound="none: all 2^32 FNV states x 256 bytes",
  enc=["PartialFNVHash::update_by_byte", "PartialFNVHash::value", "FNV_TABLE"], cap=(300, 600), cost=10)
K("c19_fnv_step_any_internal_byte", "C19", M_FNV, shape="full domain", bound="none: every internal byte allowed by the build",
  enc=["PartialFNVHash::update_by_byte"], cap=(300, 600), cost=10)
K("c19_fnv_init", "C19", M_FNV, shape="full domain", bound="none", enc=["PartialFNVHash::new"], cap=(120, 300), cost=5)
K("c19_fnv_forms_agree", "C19", M_FNV, shape="BMC", bound="arbitrary state, <= 3 bytes, all five update forms",
  enc=["PartialFNVHash::update", "update_by_iter", "AddAssign x3"], cap=(300, 600), cost=20)
K("c19_roll_forms_agree", "C19", M_ROLL, shape="BMC", bound="ARBITRARY internal state, <= 3 bytes, all five update forms",
  enc=["RollingHash::update", "update_by_iter", "update_by_byte", "AddAssign x3"], cap=(300, 900), cost=60)
for f, what in enumerate(["index", "h1", "h2", "h3", "window"]):
    K("c19_roll_slice_fixed8_f%d" % f, "C19", M_ROLL, cfg="release", shape="BMC", cap=(300, 600), cost=30,
      bound="ARBITRARY internal state, every 8-byte buffer: update(&buf) leaves the same %s as eight update_by_byte calls" % what,
      enc=["RollingHash::update", "update_by_byte"])
for (kk, tiers, cap, cost) in [(2, ("quick", "thorough"), (600, 900), 60), (4, ("thorough",), (0, 1800), 600),
                               (9, ("thorough",), (0, 900), 2400)]:
    K("c19_roll_value_from_new_k%d" % kk, "C19", M_ROLL, cfg="release", shape="BMC", tiers=tiers, cap=cap, cost=cost,
      ladder="c19_roll_from_new" if kk > 2 else None, rung=kk,
      bound="from new(): every input of <= %d bytes, value == definition over the trailing (zero padded) 7-byte window" % kk,
      enc=["RollingHash::new", "update", "value"])


def _gen_text(qs):
    lines = ["// generated by /verif/engine/tables.py for this run"]
    seen = set()
    for q in qs:
        if not q.gen:
            continue
        g = q.gen
        fn = "%s_%d_%d" % (g["kind"], g["st"], g["en"])
        if fn in seen:
            continue
        seen.add(fn)
        lines.append("#[kani::proof]\n#[kani::unwind(66)]\nfn %s() { %s }" % (fn, GEN_CALL[g["kind"]] % (g["st"], g["en"])))
    return "\n".join(lines) + "\n"


def generated_files(qs):
    return {"verif_gen/gen_pairs.rs": _gen_text(qs)}


QUICK_ROTATING = 1


def select(prop, tier, seed, qs):
    """Quick tier: exhaustive families (the 496 active ranges) are cut to the fixed boundary
    members plus a seed-rotated sample; the thorough tier runs all of them."""
    if tier != "quick":
        return qs
    fam = [q for q in qs if q.gen and q.gen["kind"].startswith("c01_") and q.prop == "C01"]
    if not fam:
        return qs
    others = [q for q in qs if q not in fam]
    import random
    rnd = random.Random(seed)
    rest = [p for p in ALL_PAIRS if p not in BOUNDARY_PAIRS and p[1] - p[0] <= 5]
    pick = set(BOUNDARY_PAIRS) | set(rnd.sample(rest, QUICK_ROTATING))
    long_only = {(0, 2), (30, 31)}
    return others + [q for q in fam if (q.gen["st"], q.gen["en"]) in pick
                     and (q.gen["kind"] != "c01_digest_long" or (q.gen["st"], q.gen["en"]) in long_only)]


# ------------------------------------------------------------------------------------
# C07 (dual hashes), and the object-level properties C11 / C15 / C16 / C17 / C02 / C10
# ------------------------------------------------------------------------------------
DUAL_SRC = "ffuzzy/src/internals/hash_dual.rs"


def dual_rules(n_in=None, n_rle=None):
    r = []
    if n_in is not None:
        r.append((r"compress_block_hash_with_rle", n_in))
        r.append((r"normalize_block_hash_in_place_internal", n_in))
        r.append((r"verify_block_hash_internal", n_in))
    if n_rle is not None:
        # the run check inside is_valid_rle_block scans exactly MAX_SEQUENCE_SIZE - 1 = 2 symbols
        r.append((r"Iterator>::any::<.closure@" + DUAL_SRC, 4))
        r.append((r"expand_block_hash_using_rle|is_valid_rle_block_for_block_hash", n_rle))
        if n_in is not None:
            r.append((r"Iterator>::all::<.closure@" + DUAL_SRC, n_in))
    return r


PROP_META["C07"] = {
    "technique": "Kani/CBMC BMC of the RLE kernels (<32,8> and <64,16>) against canonical-form models "
                 "(spec_norm, spec_rle) on symbolic raw block hashes: family A (unrestricted content, bounded "
                 "length), family B (full capacity, one planted run of symbolic position/length), "
                 "update_rle_block on its whole precondition, 'valid => canonical', and object-level wiring",
    "assumptions": ["reference models spec_norm / spec_rle (harness/spec/norm.rs)"],
}
for (N, C, B, tiers, cap, cost) in [(32, 8, 6, ("quick",), (900, 0), 300), (32, 8, 8, ("thorough",), (0, 1800), 500),
                                    (32, 8, 12, ("thorough",), (0, 2400), 900), (32, 8, 16, ("thorough",), (0, 3000), 1500),
                                    (64, 16, 4, ("quick",), (900, 0), 300), (64, 16, 6, ("thorough",), (0, 2400), 900), (64, 16, 8, ("thorough",), (0, 2400), 600),
                                    (64, 16, 12, ("thorough",), (0, 3000), 1200)]:
    K("c07_kernel%d_b%d" % (N, B), "C07", M_DUAL, cfg="release", tiers=tiers, cap=cap, cost=cost, mem=12,
      unwindset=dual_rules(n_in=B + 1, n_rle=C + 1), shape="BMC",
      bound="RLE kernels ::<%d,%d>: every raw block hash of <= %d symbols over 64 symbols" % (N, C, B),
      outside="unrestricted content longer than %d symbols (only families of planted runs)" % B,
      enc=["compress_block_hash_with_rle::<%d,%d>" % (N, C), "expand_block_hash_using_rle", "is_valid_rle_block_for_block_hash",
           "update_rle_block", "rle_encoding::encode/decode"], assumptions=[ASSUME_SYM])
for (N, C) in [(32, 8), (64, 16)]:
    K("c07_kernel%d_planted" % N, "C07", M_DUAL, cfg="release", tiers=("thorough",), cap=(0, 3000), cost=1500, mem=14,
      unwindset=dual_rules(n_in=N + 1, n_rle=C + 1), shape="BMC",
      bound="RLE kernels ::<%d,%d> at full capacity: one run of every length 1..=%d at every position, run-free "
            "neighbours (RLE groups 4,4,..,rest up to %d symbols, runs ending at the capacity limit)" % (N, C, N, C),
      enc=["compress_block_hash_with_rle::<%d,%d>" % (N, C), "expand_block_hash_using_rle", "is_valid_rle_block_for_block_hash"],
      assumptions=[ASSUME_SYM])
K("c07_update_rle_8", "C07", M_DUAL, cfg="release", shape="full domain", cap=(300, 600), cost=10,
  bound="none: every (offset, pos, len) satisfying the precondition of update_rle_block::<8>",
  enc=["update_rle_block::<8>", "rle_encoding::encode", "rle_encoding::decode"])
K("c07_update_rle_16", "C07", M_DUAL, cfg="release", shape="full domain", cap=(300, 600), cost=10,
  bound="none: every (offset, pos, len) satisfying the precondition of update_rle_block::<16>",
  enc=["update_rle_block::<16>"])
K("c07_valid_only_canonical32_b5", "C07", M_DUAL, cfg="release", tiers=("quick",), cap=(900, 0), cost=300, mem=12,
  unwindset=dual_rules(n_in=14, n_rle=9), shape="BMC",
  bound="arbitrary RLE block (2 free symbols) on every valid normalized block hash of <= 5 symbols: accepted => canonical",
  enc=["is_valid_rle_block_for_block_hash::<32,8>", "expand_block_hash_using_rle", "compress_block_hash_with_rle"],
  assumptions=[ASSUME_SYM])
for (N, C) in [(32, 8), (64, 16)]:
    K("c07_valid_only_canonical%d_b8" % N, "C07", M_DUAL, cfg="release", tiers=("thorough",),
      cap=(600, 2400), cost=900, mem=12, unwindset=dual_rules(n_in=17, n_rle=C + 1), shape="BMC",
      bound="arbitrary RLE block (2 free symbols) on every valid normalized block hash of <= 8 symbols: accepted => canonical",
      enc=["is_valid_rle_block_for_block_hash::<%d,%d>" % (N, C), "expand_block_hash_using_rle", "compress_block_hash_with_rle"],
      assumptions=[ASSUME_SYM])
K("c07_object_build_short_m4", "C07", M_DUAL, cfg="release", tiers=("thorough",), cap=(0, 2400), cost=900, mem=24,
  unwindset=dual_rules(n_in=5, n_rle=17) + alg_rules(n_norm=5, n_verify=6), shape="BMC",
  bound="re-initialising a dirty dual object gives the same valid object as a fresh build; short type, raw block hashes <= 4 symbols",
  enc=["FuzzyHashDualData::from_raw_form", "init_from_raw_form", "is_valid"], assumptions=[ASSUME_SYM])
for (kind, what) in [("build", "every constructor route incl. re-initialising a dirty object builds the same valid dual hash"),
                     ("lossless", "to_raw_form / into_mut_raw_form give back the raw hash; normalized part == normalize()"),
                     ("cleared", "normalize_in_place == dual of the normalized hash")]:
    for (S, m, tiers, cap, cost) in [("short", 5, ("thorough",), (0, 3000), 900), ("short", 8, ("thorough",), (0, 3600), 1500),
                                     ("long", 8, ("thorough",), (0, 3600), 1500)]:
        K("c07_object_%s_%s_m%d" % (kind, S, m), "C07", M_DUAL, cfg="release", tiers=tiers, cap=cap, cost=cost, mem=14,
          unwindset=dual_rules(n_in=m + 1, n_rle=17) + alg_rules(n_norm=m + 1, n_verify=m + 2), shape="BMC",
          bound="%s; %s dual type, raw block hashes <= %d symbols" % (what, S, m),
          outside="object-level wrappers with longer block hashes (they forward to the kernels)",
          enc=["FuzzyHashDualData::from_raw_form", "From<raw>", "init_from_raw_form", "new_from_internals(_near_raw)",
               "to_raw_form", "into_mut_raw_form", "as_normalized", "to_normalized", "normalize_in_place",
               "from_normalized", "is_valid", "is_normalized"],
          assumptions=[ASSUME_SYM, "raw source object valid (spec_valid)"])
K("c07_object_build_short_m12", "C07", M_DUAL, cfg="release", tiers=("thorough",), cap=(0, 3600), cost=2000, mem=14,
  unwindset=dual_rules(n_in=13, n_rle=17), shape="BMC", bound="constructor routes, short dual type, raw block hashes <= 12 symbols",
  enc=["FuzzyHashDualData::from_raw_form", "init_from_raw_form", "new_from_internals(_near_raw)"], assumptions=[ASSUME_SYM])

PROP_META["C16"] = {
    "technique": "Kani/CBMC BMC: Eq / Hash (recording hasher) / Ord of two (three) symbolic valid objects against "
                 "the documented lexicographic order",
    "assumptions": ["reference model spec_order (block size, bh1 prefix-first lexicographic, bh2 likewise)"],
}
for (S, s1, s2, norm) in [("short_raw", 64, 32, False), ("short_norm", 64, 32, True),
                          ("long_raw", 64, 64, False), ("long_norm", 64, 64, True)]:
    K("c16_pair_%s_m16" % S, "C16", M_HASH, cfg="release", tiers=("quick",), cap=(600, 0), cost=200, mem=12,
      unwindset=[("@memcmp.0", 70)], shape="BMC",
      bound="pairs of valid FuzzyHashData<%d,%d,%s>, block hashes <= 16 symbols" % (s1, s2, norm),
      enc=["PartialEq::eq", "Ord::cmp", "PartialOrd::partial_cmp", "Hash::hash", "cmp_by_block_size"],
      assumptions=["both objects valid (spec_valid)"])
    K("c16_pair_%s_full" % S, "C16", M_HASH, cfg="release", tiers=("thorough",), cap=(0, 3000), cost=1200, mem=14,
      unwindset=[("@memcmp.0", 70)], shape="BMC",
      bound="pairs of valid FuzzyHashData<%d,%d,%s>, block hashes up to full capacity" % (s1, s2, norm),
      enc=["PartialEq::eq", "Ord::cmp", "PartialOrd::partial_cmp", "Hash::hash"],
      assumptions=["both objects valid (spec_valid)"])
for nm in ("c16_triple_short_raw_m8", "c16_triple_long_norm_m8"):
    K(nm, "C16", M_HASH, cfg="release", cap=(900, 2400), cost=400, mem=12, unwindset=[("@memcmp.0", 70)], shape="BMC",
      bound="triples of valid objects, block hashes <= 8 symbols (transitivity)", enc=["Ord::cmp", "PartialEq::eq"],
      assumptions=["objects valid (spec_valid)"])
for (nm, tiers, cap, cost) in [("c16_dual_pair_short_m8", ("quick", "thorough"), (900, 2400), 300),
                               ("c16_dual_pair_long_m8", ("thorough",), (0, 2400), 400),
                               ("c16_dual_pair_long_m4_40", ("thorough",), (0, 3000), 900),
                               ("c16_dual_equal_iff_raw_equal_m5", ("thorough",), (0, 3600), 1500),
                               ("c16_dual_hash_short_m8", ("thorough",), (0, 3600), 1500),
                               ("c16_dual_triple_short_m6", ("thorough",), (0, 3600), 1500)]:
    K(nm, "C16", M_DUAL, cfg="release", tiers=tiers, cap=cap, cost=cost, mem=14,
      unwindset=dual_rules(n_in=9, n_rle=17) + [("@memcmp.0", 70)], shape="BMC",
      bound="dual hashes: arbitrary reverse-normalization bytes, valid normalized parts with block hashes <= 8 (40) symbols"
      if "pair" in nm else "dual hashes built from valid raw hashes with block hashes <= 8 (6, 5) symbols",
      enc=["FuzzyHashDualData: PartialEq, Ord, PartialOrd, Hash", "from_raw_form"],
      assumptions=["normalized parts valid (spec_valid)"])

PROP_META["C15"] = {
    "technique": "Kani/CBMC BMC per edge of the conversion graph on a symbolic valid source and a symbolic dirty "
                 "destination: content function, validity, narrowing failure leaves the destination untouched",
}
for nm, tiers, cap, cost in [("c15_short_long_raw_m16", ("quick",), (600, 0), 200),
                             ("c15_short_long_norm_m16", ("quick",), (600, 0), 200),
                             ("c15_short_long_raw_full", ("thorough",), (0, 2400), 600),
                             ("c15_short_long_norm_full", ("thorough",), (0, 2400), 900),
                             ("c15_narrow_raw_m40", ("quick",), (600, 0), 200),
                             ("c15_narrow_raw_full", ("thorough",), (0, 2400), 600),
                             ("c15_narrow_norm_full", ("thorough",), (0, 2400), 900),
                             ("c15_short_norm_to_long_raw", ("quick", "thorough"), (600, 2400), 300),
                             ("c15_chain_commutes_m10", ("quick", "thorough"), (900, 2400), 500)]:
    K(nm, "C15", M_HASH, cfg="release", tiers=tiers, cap=cap, cost=cost, mem=12,
      unwindset=alg_rules(n_norm=12, n_verify=66) if "chain" in nm else None, shape="BMC",
      bound={"m16": "block hashes <= 16 symbols", "full": "block hashes up to full capacity",
             "m40": "block hash 1 <= 8, block hash 2 <= 40 symbols", "raw": "block hashes up to full capacity",
             "m10": "block hashes <= 10 symbols"}[nm.split("_")[-1]],
      enc=["to_long_form", "from_short_form", "From<short> for long", "into_mut_long_form", "try_into_mut_short",
           "TryFrom<long> for short", "From<short norm> for long raw", "to_raw_form", "normalize"],
      assumptions=["source valid (spec_valid); destination arbitrary bits"])
for nm in ("c15_dual_edges_short_m8",):
    K(nm, "C15", M_DUAL, fn="c07_object_lossless_short_m8", cfg="release", tiers=("thorough",), cap=(0, 3000), cost=900, mem=14,
      unwindset=dual_rules(n_in=9, n_rle=17), shape="BMC",
      bound="dual edges (from_raw_form/from_normalized/to_raw_form/to_normalized/into_mut_raw_form/From), block hashes <= 8",
      enc=["FuzzyHashDualData conversions"], assumptions=["source valid (spec_valid)"])

PROP_META["C11"] = {
    "technique": "Kani/CBMC, one inductive step per public safe operation: arbitrary valid inputs and arbitrary "
                 "(dirty) destinations give valid outputs; out-of-contract constructor arguments: 'returned => "
                 "valid' as a tagged assertion (expected panics ignored), with debug assertions on AND off; "
                 "validity checks on arbitrary bit patterns never panic",
    "assumptions": ["'any sequence of operations' is reduced to one step per operation from arbitrary valid "
                    "(or dirty) objects; the operation list is the pub fn items of hash.rs / hash_dual.rs / compare.rs"],
}
for S in ("short_norm", "short_raw", "long_norm", "long_raw"):
    K("c11_is_valid_spec_%s" % S, "C11", M_HASH, cfg="release", tiers=("quick", "thorough") if S.startswith("short") else ("thorough",),
      cap=(600, 1800), cost=200, mem=12, unwindset=[("@memcmp.0", 70)], shape="BMC",
      bound="is_valid / full_eq on ARBITRARY bit patterns of the %s type (full size)" % S,
      enc=["FuzzyHashData::is_valid", "full_eq", "verify_block_hash_input"])
for nm, tiers in [("c11_constructors_ok_short_norm_m12", ("thorough",)), ("c11_constructors_ok_long_raw_m12", ("thorough",)),
                  ("c11_constructors_ok_short_raw_full", ("thorough",)), ("c11_constructors_ok_long_norm_full", ("thorough",))]:
    K(nm, "C11", M_HASH, cfg="release", tiers=tiers, cap=(900, 2400), cost=400, mem=12, shape="BMC",
      unwindset=alg_rules(n_verify=14) if nm.endswith("m12") else None,
      bound="in-contract constructors rebuild exactly the given valid content (%s)" % nm.split("_")[-1],
      enc=["new_from_internals_raw", "init_from_internals_raw", "new_from_internals_near_raw", "new_from_internals", "new", "default"],
      assumptions=["arguments satisfy the documented contract (a valid object's fields)"])
for nm in ("c11_ooc_new_from_internals_short_norm", "c11_ooc_new_from_internals_short_raw", "c11_ooc_new_from_internals_long_norm",
           "c11_ooc_near_raw_short_norm", "c11_ooc_near_raw_long_raw", "c11_ooc_internals_raw_short_norm",
           "c11_ooc_internals_raw_long_raw"):
    for cfg in ("release", "default"):
        K(nm + ("" if cfg == "release" else "_dbg"), "C11", M_HASH, fn=nm, cfg=cfg,
          tiers=("quick", "thorough") if ("short" in nm and "internals_raw" not in nm) else ("thorough",),
          cap=(600, 2400), cost=150, mem=12, only_tag="VERIF_TAG", shape="BMC",
          unwindset=alg_rules(n_verify=8) if "internals_raw" not in nm else None,
          bound="ANY arguments (<= 6 symbols per block hash, any block size): if the constructor returns, the object is valid",
          enc=[nm.replace("c11_ooc_", "").rsplit("_", 2)[0]],
          assumptions=["panics of the constructor are the documented behaviour (ignored); only 'returned => valid' is read",
                       "debug assertions %s" % ("off" if cfg == "release" else "on")])
for nm in ("c11_dual_ooc_short", "c11_dual_ooc_near_raw_short"):
    for cfg in ("release", "default"):
        K(nm + ("" if cfg == "release" else "_dbg"), "C11", M_DUAL, fn=nm, cfg=cfg, tiers=("thorough",), cap=(900, 3600), cost=2000, mem=14,
          only_tag="VERIF_TAG", unwindset=dual_rules(n_in=8, n_rle=17), shape="BMC",
          bound="ANY arguments (<= 6 symbols per block hash): if the dual constructor returns, the object is valid",
          enc=["FuzzyHashDualData::new_from_internals", "new_from_internals_near_raw"],
          assumptions=["panics are the documented behaviour (ignored)"])
K("c11_dual_is_valid_total", "C11", M_DUAL, cfg="release", tiers=("thorough",), cap=(900, 3600), cost=2000, mem=14, shape="BMC",
  unwindset=dual_rules(n_rle=17),
  bound="FuzzyHashDualData::is_valid / is_normalized on ARBITRARY bit patterns (short type): no panic",
  enc=["FuzzyHashDualData::is_valid", "is_valid_rle_block_for_block_hash", "is_normalized"])
K("c11_target_total", "C11", M_CMP, cfg="release", cap=(900, 2400), cost=300, mem=12, unwindset=[("@memcmp.0", 520)],
  shape="BMC", bound="FuzzyHashCompareTarget::is_valid / full_eq on ARBITRARY bit patterns: no panic; new()/default() valid",
  enc=["FuzzyHashCompareTarget::is_valid", "full_eq", "new", "default"])
K("c11_dual_parser_valid", "C11", M_DUAL, fn="c04_dual_capacity_bh2_short_t37", cfg="default", tiers=("thorough",),
  cap=(0, 3000), cost=1500, mem=14, unwindset=alg_rules(n_text=40, n_verify=40) + dual_rules(n_in=40, n_rle=17), shape="BMC",
  bound="dual parser on '3::' + every byte string of <= 34 bytes: Ok => is_valid (capacity class that exposed F1)",
  enc=["FuzzyHashDualData::from_bytes_with_last_index"])

PROP_META["C17"] = {
    "technique": "Kani/CBMC from an ARBITRARY pre-state: init_from / clear / From of position arrays and "
                 "comparison targets equal the reference masks of the string; has_sequences on all u64 x 0..=65",
    "assumptions": ["reference masks: bit i of mask[c] <=> s[i] == c, i < len"],
}
for (L, tiers, cap, cost) in [(8, ("quick", "thorough"), (600, 1200), 90), (16, ("thorough",), (0, 2400), 400),
                              (32, ("thorough",), (0, 3000), 1500)]:
    K("c17_pa_init_l%d" % L, "C17", M_PA, cfg="release", tiers=tiers, cap=cap, cost=cost, mem=12,
      unwindset=pa_rules(n_init=L + 1), shape="inductive step",
      bound="BlockHashPositionArray::init_from on an arbitrary array, string <= %d symbols" % L,
      outside="strings longer than %d symbols at this level" % L,
      enc=["BlockHashPositionArray::init_from", "clear_representation_only", "init_from_partial"], assumptions=[ASSUME_SYM])
K("c17_pa_init_partial_l16", "C17", M_PA, cfg="release", tiers=("thorough",), cap=(0, 2400), cost=300,
  unwindset=pa_rules(n_init=17), shape="BMC", bound="init_from_partial on a zeroed array, string <= 16 symbols",
  enc=["init_from_partial"], assumptions=[ASSUME_SYM])
K("c17_pa_clear", "C17", M_PA, cfg="release", shape="inductive step", cap=(300, 600), cost=15,
  bound="clear() on an arbitrary array == new()", enc=["BlockHashPositionArray::clear", "new"])
for (L, tiers, cap, cost) in [(8, ("quick", "thorough"), (600, 1500), 120), (16, ("thorough",), (0, 2400), 600)]:
    K("c17_pa_queries_l%d" % L, "C17", M_PA, cfg="release", tiers=tiers, cap=cap, cost=cost, mem=12,
      unwindset=pa_rules(n_init=L + 1), shape="BMC",
      bound="is_valid / is_equiv / is_valid_and_normalized on the reference masks of strings <= %d symbols" % L,
      enc=["is_valid", "is_equiv_internal", "is_valid_and_normalized", "has_sequences_const"], assumptions=[ASSUME_SYM])
K("c17_pa_is_valid_spec", "C17", M_PA, cfg="release", cap=(900, 1800), cost=200, shape="BMC",
  bound="is_valid on arbitrary data: three arbitrary masks at arbitrary symbols, any len",
  enc=["BlockHashPositionArrayData::is_valid", "u64_lsb_ones"])
K("c17_has_sequences_full", "C17", M_PA, cfg="release", shape="full domain", cap=(600, 1200), cost=20,
  bound="none: all u64 x all lengths 0..=65", enc=["block_hash_position_array_element::has_sequences", "has_sequences_const"])
for (nm, M_, tiers, cap, cost) in [("c17_target_init_short_m6", 6, ("quick", "thorough"), (900, 2400), 400),
                                   ("c17_target_init_long_m6", 6, ("thorough",), (0, 2400), 400),
                                   ("c17_target_init_short_m12", 12, ("thorough",), (0, 3000), 1500)]:
    K(nm, "C17", M_CMP, cfg="release", tiers=tiers, cap=cap, cost=cost, mem=14,
      unwindset=pa_rules(n_init=M_ + 1) + [("@memcmp.0", 520)], shape="inductive step",
      bound="FuzzyHashCompareTarget::init_from on an ARBITRARY target and From<hash>: block hashes <= %d symbols" % M_,
      enc=["FuzzyHashCompareTarget::init_from", "init_from_partial", "From<&FuzzyHashData>", "From<FuzzyHashData>", "full_eq"],
      assumptions=[ASSUME_SYM, "hash valid (spec_valid)"])
for S in ("short", "long"):
    K("c17_target_init_lite_%s_m3" % S, "C17", M_CMP, cfg="release", cap=(600, 1200), cost=100, mem=12,
      unwindset=pa_rules(n_init=4) + [("@memcmp.0", 520)], shape="inductive step",
      bound="FuzzyHashCompareTarget::init_from on an ARBITRARY target == reference target: block hashes <= 3 symbols (%s form)" % S,
      enc=["FuzzyHashCompareTarget::init_from", "init_from_partial"], assumptions=[ASSUME_SYM, "hash valid (spec_valid)"])
K("c17_target_queries_m8", "C17", M_CMP, cfg="release", cap=(900, 2400), cost=400, mem=14,
  unwindset=pa_rules(n_init=9) + [("@memcmp.0", 520)], shape="BMC",
  bound="is_valid / is_equiv / clone on the reference target, block hashes <= 8 symbols",
  enc=["FuzzyHashCompareTarget::is_valid", "is_equiv", "is_equiv_except_block_size", "Clone"], assumptions=[ASSUME_SYM])

PROP_META["C02"] = {
    "technique": "Kani/CBMC BMC of the comparison dispatch on symbolic pairs of normalized hashes against the "
                 "defined score (textbook LCS DP + 7-gram search + score arithmetic); block-size pair concrete per "
                 "query (all 91 near pairs enumerated in the thorough tier), contents symbolic, block hashes bounded",
    "assumptions": ["reference model spec_score (harness/spec/score.rs, lcs.rs)", ASSUME_MASKS],
}
PROP_META["C10"] = {
    "technique": "Kani/CBMC BMC of score laws and of candidate <=> index-window intersection on symbolic pairs "
                 "(block-size pair concrete per query); windows = injective base-64 encoding at full length 64",
    "assumptions": [ASSUME_MASKS],
}
C02_RULES = [(r"edit_distance_internal", 10), (r"has_common_substring_internal", 10),
             (r"is_equiv_internal", 12), (r"Enumerate<core::slice::Iter<'_, u8>>", 12), ("@memcmp.0", 70)]
NEAR_PAIRS = [(n, n) for n in range(31)] + [(n, n + 1) for n in range(30)] + [(n + 1, n) for n in range(30)]
FAR_PAIRS = [(0, 2), (2, 0), (0, 30), (30, 0), (13, 15), (28, 30)]
C02_QUICK = [(3, 3), (3, 4), (4, 3), (30, 30), (29, 30), (30, 29), (0, 2)]
for (a, b) in NEAR_PAIRS + FAR_PAIRS:
    K("c02_t_ss_m7_%d_%d" % (a, b), "C02", M_CMP, cfg="release",
      tiers=("quick", "thorough") if (a, b) in C02_QUICK else ("thorough",), cap=(900, 2400), cost=400, mem=12,
      unwindset=C02_RULES, shape="BMC",
      bound="FuzzyHashCompareTarget::compare, block sizes (3<<%d, 3<<%d), block hashes <= 7 symbols over 64 symbols" % (a, b),
      outside="longer block hashes through the top-level entry points (covered compositionally via C08/C09/C20)",
      enc=["FuzzyHashCompareTarget::compare", "compare_near_eq_internal", "compare_unequal_near_{eq,lt,gt}_internal",
           "score_strings_internal", "score_strings_raw_internal", "is_equiv_except_block_size", "block_size::compare_sizes"],
      assumptions=[ASSUME_SYM, "both hashes valid and normalized (spec_valid)"])
    K("c10_c_s_m8_%d_%d" % (a, b), "C10", M_CMP, cfg="release",
      tiers=("quick", "thorough") if (a, b) == (0, 2) else ("thorough",), cap=(900, 3000), cost=500, mem=12,
      unwindset=C02_RULES, shape="BMC",
      bound="score > 0 <=> equal or candidate; candidate <=> index windows intersect; block sizes (3<<%d, 3<<%d), "
            "block hashes <= 8 symbols" % (a, b),
      enc=["FuzzyHashCompareTarget::is_comparison_candidate(_near_*)", "compare", "block_hash_{1,2}_index_windows"],
      assumptions=[ASSUME_SYM, "both hashes valid and normalized (spec_valid)"])
for (pre, fn_pairs, desc) in [("c02_t_ll_m8", [(2, 2), (3, 4), (30, 29), (30, 30)], "long x long, <= 8 symbols"),
                              ("c02_t_sl_m8", [(3, 3), (7, 8), (30, 29)], "short target x long operand, <= 8 symbols"),
                              ("c02_t_ss_m10a4", [(1, 1), (3, 4), (5, 4), (30, 30)], "<= 10 symbols over 4 symbols"),
                              ("c02_v_m7", [(3, 3), (3, 4), (4, 3), (30, 30), (29, 30), (30, 29)],
                               "compare_unequal* / near_* variants == compare under their contracts, <= 7 symbols")]:
    for (a, b) in fn_pairs:
        K("%s_%d_%d" % (pre, a, b), "C02", M_CMP, cfg="release", tiers=("thorough",), cap=(0, 3000), cost=900, mem=14,
          unwindset=[(r"edit_distance_internal", 12), (r"has_common_substring_internal", 12),
                     (r"is_equiv_internal", 12), (r"Enumerate<core::slice::Iter<'_, u8>>", 12), ("@memcmp.0", 70)], shape="BMC",
          bound="%s; block sizes (3<<%d, 3<<%d)" % (desc, a, b),
          enc=["FuzzyHashCompareTarget::compare and variants"], assumptions=[ASSUME_SYM])
for nm in ("c02_hash_compare_short_m7", "c02_hash_compare_long_m7", "c02_dual_operand_m7"):
    K(nm, "C02", M_CMP, cfg="release", tiers=("thorough",), cap=(0, 3600), cost=2000, mem=14,
      unwindset=C02_RULES + pa_rules(n_init=8) + dual_rules(n_in=8, n_rle=17), shape="BMC",
      bound="hash-to-hash entry points (own target construction), all 31x31 block sizes symbolic, block hashes <= 7 symbols",
      enc=["FuzzyHashData::compare", "compare_unequal", "compare_optimized_internal", "FuzzyHashCompareTarget::from",
           "BlockHashPositionArray::init_from_partial"], assumptions=[ASSUME_SYM])
K("c02_str_compare_wiring", "C02", M_CEASY, cfg="release", tiers=("thorough",), cap=(0, 3600), cost=2000, mem=14,
  shape="BMC", bound="compare(&str,&str) on two texts of <= 5 ASCII bytes each: error side/kind and score wiring",
  enc=["compare_easy::compare", "LongFuzzyHash::from_str", "LongFuzzyHash::compare"])
for (a, b) in [(0, 0), (30, 30), (29, 30), (30, 29)]:
    K("c10_c_l_m8_%d_%d" % (a, b), "C10", M_CMP, cfg="release", tiers=("thorough",), cap=(0, 3000), cost=900, mem=14,
      unwindset=C02_RULES, shape="BMC", bound="long hashes, block sizes (3<<%d, 3<<%d), block hashes <= 8 symbols" % (a, b),
      enc=["FuzzyHashCompareTarget::is_comparison_candidate", "compare"], assumptions=[ASSUME_SYM])
for nm, cost in (("c10_symmetry_m7", 600), ("c10_symmetry_m8", 1500)):
    K(nm, "C10", M_CMP, cfg="release", tiers=("thorough",), cap=(0, 3600), cost=cost, mem=14, unwindset=C02_RULES,
      shape="BMC", bound="score(a,b) == score(b,a), score(a,a) == 100; all 31x31 sizes symbolic, block hashes <= %s symbols" % nm[-1],
      enc=["FuzzyHashCompareTarget::compare", "is_comparison_candidate"], assumptions=[ASSUME_SYM])
K("c10_windows_full_length", "C10", M_BLOCK, tiers=("thorough",), cap=(0, 1200), cost=100, shape="BMC",
  bound="numeric / index windows of every block hash of length 0..=64 (full) over 64 symbols, log 0..=31",
  enc=["block_hash::NumericWindows", "block_hash::IndexWindows"], assumptions=[ASSUME_SYM])
K("c10_window_injective", "C10", M_BLOCK, shape="full domain", cap=(300, 600), cost=10,
  bound="none: all pairs of 7-symbol slices x all log pairs 0..=31", enc=["NumericWindows::next", "IndexWindows::next"],
  assumptions=[ASSUME_SYM])


# ------------------------------------------------------------------------------------
# C04 (dual types), C07 (parser route), C14 (feature matrix)
# ------------------------------------------------------------------------------------
DUAL_PARSE_RULES = alg_rules(n_text=42, n_verify=42) + dual_rules(n_in=42, n_rle=17)
for (nm, T, tiers, uw) in [("c04_dual_like_raw_short_fixed40", 40, ("quick", "thorough"), 42),
                           ("c04_dual_like_raw_short_t40", 41, ("thorough",), 42), ("c04_dual_like_raw_short_t12", 12, ("thorough",), 14),
                           ("c04_dual_like_raw_long_t12", 12, ("thorough",), 14), ("c04_dual_like_raw_long_cap64", 70, ("thorough",), 72)]:
    K(nm, "C04", M_DUAL, cfg="release", tiers=tiers, cap=(900, 2400), cost=500, mem=14, stubbing=True,
      unwindset=alg_rules(n_text=uw, n_verify=uw), shape="BMC",
      bound="dual parser == raw parser of the same capacity (accepted set, end index, error kind/origin/offset; compress "
            "precondition raw length <= capacity) on every text of <= %d bytes%s; compress_block_hash_with_rle replaced by a "
            "stub that checks its precondition (its result is decided by the C07 kernel queries)"
            % (T if T != 41 else 40,
               {40: " of exactly 40 bytes starting with '3::' (block hash 2 reaches and exceeds 32 symbols; shorter fields via a ',name' tail)",
                41: " starting with '3::', every length 3..40",
                   70: " starting with '3::' + 62 fixed symbols (block hash 2 reaches and exceeds 64 symbols)"}.get(T, "")),
      enc=["FuzzyHashDualData::from_bytes_with_last_index", "FuzzyHashDualData::from_raw_form (compress stubbed)",
           "FuzzyHashData<_,_,false>::from_bytes_with_last_index"])
for (nm, tiers, what) in [
        ("c04_dual_accept_within_capacity_fixed40", ("quick", "thorough"), "'3::' + every 37 bytes (text length 40; shorter block hashes via a ',name' tail)"),
        ("c04_dual_accept_within_capacity_t40", ("thorough",), "'3::' + every <= 37 bytes, every text length 3..40"),
        ("c04_dual_capacity_prefix_run29_t36", ("quick", "thorough"), "'3::' + 'A'*29 + every 4 bytes"),
        ("c04_dual_capacity_prefix_runfree29_t36", ("quick", "thorough"), "'3::' + 29 fixed run-free symbols + every 4 bytes"),
        ("c04_dual_capacity_prefix_run29", ("quick", "thorough"), "'3::' + 'A'*29 + every 8 bytes"),
        ("c04_dual_capacity_prefix_runfree29", ("quick", "thorough"), "'3::' + 29 fixed run-free symbols + every 8 bytes")]:
    K(nm, "C04", M_DUAL, cfg="release", tiers=tiers, cap=(600, 1800), cost=60, mem=14, stubbing=True,
      unwindset=alg_rules(n_text=42, n_verify=42), shape="BMC",
      bound="every dual hash the parser returns has raw block hash lengths (norm length + RLE extensions) within capacity "
            "(64 / 32), no panic: " + what + "; compress_block_hash_with_rle stubbed by its precondition check",
      enc=["FuzzyHashDualData::from_bytes", "from_bytes_with_last_index_internal"])
K("c11_dual_parser_capacity_prefix", "C11", M_DUAL, fn="c04_dual_capacity_prefix_runfree29_t36", cfg="release", cap=(600, 1800), cost=60, mem=14,
  stubbing=True, unwindset=alg_rules(n_text=42, n_verify=42), shape="BMC",
  bound="dual parser output raw lengths within capacity, no panic: '3::' + 29 fixed symbols + every 4 bytes (compress stubbed)",
  enc=["FuzzyHashDualData::from_bytes"])
K("c11_dual_parser_capacity_fixed40", "C11", M_DUAL, fn="c04_dual_accept_within_capacity_fixed40", cfg="release", cap=(600, 1800), cost=60, mem=14,
  stubbing=True, unwindset=alg_rules(n_text=42, n_verify=42), shape="BMC",
  bound="dual parser output raw lengths within capacity, no panic: '3::' + every 37 bytes (compress stubbed)",
  enc=["FuzzyHashDualData::from_bytes"])
for (nm, tiers, cap, cost, T) in [("c04_dual_driver_short_t10", ("thorough",), (900, 3600), 2000, 10),
                                  ("c04_dual_driver_long_t10", ("thorough",), (0, 2400), 500, 10),
                                  ("c04_dual_driver_short_t14", ("thorough",), (0, 3600), 1500, 14),
                                  ("c04_dual_capacity_bh2_short_t37", ("thorough",), (0, 3600), 2000, 37),
                                  ("c04_dual_capacity_bh2_short_t40", ("thorough",), (0, 3600), 3000, 40)]:
    K(nm, "C04", M_DUAL, cfg="release", tiers=tiers, cap=cap, cost=cost, mem=14,
      unwindset=alg_rules(n_text=T + 2, n_verify=T + 2) + dual_rules(n_in=T + 2, n_rle=17), shape="BMC",
      bound=("dual parser: '3::' + every byte string of <= %d bytes (block hash 2 reaches and exceeds the capacity 32)" % (T - 3))
      if "capacity" in nm else ("dual parser: every byte string of <= %d bytes" % T),
      enc=["FuzzyHashDualData::from_bytes_with_last_index", "from_bytes", "from_raw_form", "to_raw_form", "is_valid"])
K("c07_parser_route_short_t10", "C07", M_DUAL, fn="c04_dual_driver_short_t10", cfg="release", tiers=("thorough",), cap=(0, 2400), cost=500,
  mem=14, unwindset=alg_rules(n_text=12, n_verify=12) + dual_rules(n_in=12, n_rle=17), shape="BMC",
  bound="parsing a text gives the same dual hash as compressing the parsed raw hash; every byte string of <= 10 bytes",
  enc=["FuzzyHashDualData::from_bytes_with_last_index", "from_raw_form"])

PROP_META["C14"] = {
    "technique": "the same Kani/CBMC (and SMT) queries re-run per feature set x debug-assertion setting against the "
                 "same reference models (equality between configurations by transitivity inside the common bounds); "
                 "in the unsafe build every invariant!() is an assert_unchecked that Kani checks, and CBMC's pointer "
                 "checks cover the raw-pointer generator loop",
    "assumptions": ["MSRV fallbacks selected by build.rs for old rustc and the unstable/nightly features are outside "
                    "(not buildable with the pinned Kani toolchain)"],
}


def c14(name, base_module, fn, cfg, tiers, cap, cost, bound, enc, unwindset=None, only_tag=None, gen=None, mem=12):
    q = Q("c14_%s__%s" % (name, cfg), "C14", harness=modpath(base_module) + "::" + fn, module=base_module, cfg=cfg,
          tiers=tiers, cap=cap, cost=cost, mem=mem, unwindset=unwindset, only_tag=only_tag, shape="BMC",
          bound=bound + " [configuration %s]" % cfg, enc=enc, gen=gen,
          assumptions=["same reference model as the default-configuration query of the same harness"])
    add(q)
    return q


C14_CFGS_Q = ["unsafe-release", "fnv", "strict", "nodefault"]
C14_CFGS_T = ["default", "release", "unsafe", "unsafe-release", "unchecked", "unchecked-release", "fnv", "fnv-release",
              "unsafe-fnv", "unsafe-fnv-release", "strict", "strict-release", "nodefault", "nodefault-release"]
# Quick tier: the cheap queries run in all four quick configurations; the three expensive ones (250-530 s each) run
# only in the configurations whose feature changes code they execute -- the parser driver and the block-hash field
# kernel under `unsafe` (release) and `strict-parser`, the generator step under `unsafe` (release) and
# `opt-reduce-fnv-table`.  (alloc/std, i.e. `nodefault`, add I/O and String conveniences only; the FNV table is not
# used by the parser; strict-parser does not touch the generator.)  The thorough tier runs every query in all 14.
C14_HEAVY_Q = {"bh32_norm": ("unsafe-release", "strict"), "driver_short_norm_t8": ("unsafe-release", "strict"),
               "gen_step_3_5": ("unsafe-release", "fnv")}
_c14_plain = c14


def c14(name, base_module, fn, cfg, tiers, *a, **kw):
    if "quick" in tiers and name in C14_HEAVY_Q and cfg not in C14_HEAVY_Q[name]:
        tiers = tuple(t for t in tiers if t != "quick")
    if not tiers:
        return None
    return _c14_plain(name, base_module, fn, cfg, tiers, *a, **kw)


for cfg in C14_CFGS_T:
    tq = ("quick", "thorough") if cfg in C14_CFGS_Q else ("thorough",)
    c14("fnv_step", M_FNV, "c19_fnv_step_any_internal_byte", cfg, tq, (300, 600), 10,
        "FNV step, all 2^32 states x 256 bytes", ["PartialFNVHash::update_by_byte"])
    c14("block_size", M_BLOCK, "c20_log_from_valid_full", cfg, tq, (300, 600), 10,
        "log_from_valid on all valid block sizes", ["block_size::log_from_valid"])
    c14("bh32_norm", M_ALG, "c04_bh32_t12_norm", cfg, tq, (600, 1200), 80,
        "block hash field kernel ::<32> collapsing, <= 12 bytes", ["parse_block_hash_from_bytes::<_,32>"],
        unwindset=alg_rules(n_text=14))
    # quick: texts <= 8 bytes (400 s in the slowest configuration); thorough: <= 10 bytes (530 s)
    c14("driver_short_norm_t8", M_HASH, "c04_driver_short_norm_t8", cfg, ("quick",) if "quick" in tq else (), (900, 0), 300,
        "from_bytes of the short normalizing type, <= 8 bytes", ["FuzzyHashData::from_bytes_with_last_index"],
        unwindset=alg_rules(n_text=10, n_verify=10))
    c14("driver_short_norm", M_HASH, "c04_driver_short_norm_t10", cfg, ("thorough",), (900, 2400), 300,
        "from_bytes of the short normalizing type, <= 10 bytes", ["FuzzyHashData::from_bytes_with_last_index"],
        unwindset=alg_rules(n_text=12, n_verify=12))
    c14("driver_short_raw", M_HASH, "c04_driver_short_raw_t10", cfg, ("thorough",), (900, 2400), 300,
        "from_bytes of the short raw type, <= 10 bytes", ["FuzzyHashData::from_bytes_with_last_index"],
        unwindset=alg_rules(n_text=12, n_verify=12))
    c14("dual_driver", M_DUAL, "c04_dual_driver_short_t10", cfg, ("thorough",), (900, 2400), 500,
        "from_bytes of the short dual type, <= 10 bytes", ["FuzzyHashDualData::from_bytes_with_last_index"],
        unwindset=alg_rules(n_text=12, n_verify=12) + dual_rules(n_in=12, n_rle=17), mem=14)
    c14("norm32", M_ALG, "c06_norm32_b16", cfg, tq, (600, 1200), 60,
        "normalize kernel ::<32>, raw length <= 16", ["normalize_block_hash_in_place_internal::<32>"],
        unwindset=alg_rules(n_norm=17))
    c14("ed_l4", M_PA, "c08_ed_l4_a64", cfg, ("thorough",), (600, 1200), 60,
        "edit distance vs DP, strings <= 4", ["edit_distance_internal"], unwindset=pa_rules(n_ed=5))
    c14("store", M_HASH, "c05_store_short_raw_m8", cfg, ("thorough",), (900, 1800), 300,
        "store_into_bytes, block hashes <= 8", ["FuzzyHashData::store_into_bytes"], unwindset=alg_rules(n_insert=10))
    # quick: active range [3,5) (two levels); thorough: the three-level ranges as well
    c14("gen_step_3_5", M_GEN, "c01_step_3_5", cfg, ("quick",) if "quick" in tq else (), (900, 0), 200,
        "generator inductive step, active range [3,5)", GEN_ENC, gen={"kind": "c01_step", "st": 3, "en": 5})
    for (st, en) in [(0, 2), (3, 6), (29, 31)]:
        tqq = ("thorough",)
        c14("gen_step_%d_%d" % (st, en), M_GEN, "c01_step_%d_%d" % (st, en), cfg, tqq, (900, 2400), 400,
            "generator inductive step, active range [%d,%d)" % (st, en), GEN_ENC,
            gen={"kind": "c01_step", "st": st, "en": en})
        c14("gen_two_%d_%d" % (st, en), M_GEN, "c03_two_slice_%d_%d" % (st, en), cfg, ("thorough",), (900, 3000), 800,
            "generator two-byte slice step, active range [%d,%d)" % (st, en), GEN_ENC,
            gen={"kind": "c03_two_slice", "st": st, "en": en})
    c14("gen_digest_3_6", M_GEN, "c01_digest_trunc_3_6", cfg, ("thorough",), (900, 2400), 400,
        "generator digest, active range [3,6)", ["Generator::finalize_raw_internal"],
        gen={"kind": "c01_digest_trunc", "st": 3, "en": 6})
    c14("ooc_new_from_internals", M_HASH, "c11_ooc_new_from_internals_short_norm", cfg, ("thorough",), (600, 1800), 150,
        "constructor out of contract: returned => valid", ["FuzzyHashData::new_from_internals"], only_tag="VERIF_TAG")


# ------------------------------------------------------------------------------------
# E2 (SMT over MIR) queries
# ------------------------------------------------------------------------------------
add(Q("c19_roll_step_smt", "C19", harness="roll_step", engine="smt", cap=(60, 120), cost=30,
      shape="inductive step",
      bound="none: update_by_byte from ANY state satisfying InvR, all 7 window indices, every byte; value() is the "
            "wrapping sum; no panic -- hence after any byte sequence the value is the stated function of the last "
            "seven bytes (zero padded)",
      enc=["RollingHash::update_by_byte (MIR)", "RollingHash::value (MIR)"],
      assumptions=["InvR: h1 = sum, h2 = position-weighted sum, h3 = shift-5-xor fold of the window read in age order "
                   "(established by new(): all zero, checked by c19_roll_value_from_new_k2 / _k4)",
                   "rustc MIR (-Zunpretty=mir, overflow checks on) is the program; translator limited to the listed subset"]))
add(Q("c08_lcs_step_smt", "C08", harness="lcs_step", engine="smt", cap=(120, 300), cost=60,
      shape="inductive step",
      bound="none on string length or alphabet: loop body of edit_distance_internal at its cut point for ANY 64-bit v and "
            "match mask e advances the DP-row encoding exactly as the textbook LCS recurrence; entry v0 = !0; exit "
            "value len + |other| - 2*count_zeros(v) without overflow",
      outside="that the MIR of the generic default method is what each implementor runs (rustc monomorphisation)",
      enc=["BlockHashPositionArrayImplInternal::edit_distance_internal (MIR: loop body, entry, exit)"],
      assumptions=["row encoding: cell i = number of zero bits of v below position i; mask bits only below len "
                   "(position-array validity, C17)", "symbols < 64 (the index assertion in the loop body)"]))


# ------------------------------------------------------------------------------------
# MANIFEST texts
# ------------------------------------------------------------------------------------
LEVEL_TEXT = {
    "C01": "Solver verdict (CBMC) for one real update step / finalization from an ARBITRARY generator state satisfying a "
           "representation invariant, compared with a pure-CTPH reference model; by induction this covers inputs of any "
           "length, content and size (up to 192 GiB).  One query per concrete active block-size range (quick: boundary "
           "ranges + seed-rotated sample; thorough: all 496).  Bounded model checking, not a proof: the invariant, the "
           "abstraction function and the reference model are trusted as written (the model is validated natively against "
           "880 libfuzzy-generated expectations).",
    "C02": "Solver verdict over symbolic pairs of normalized hashes (contents symbolic, block hashes <= 7-10 symbols, "
           "block-size pair concrete per query) for the comparison dispatch against the defined score; the kernels behind "
           "it are covered at full width by C08 (inductive, 64 bit), C09 and C20.",
    "C03": "Inductive step per update form from an arbitrary invariant state (two-byte chunks: the counter runs ahead, "
           "cached pointers of the unsafe build survive an arbitrary first iteration); longer chunks by the stated "
           "decomposition argument.",
    "C04": "Bounded model checking of the parser kernels and drivers of all six types on fully symbolic byte strings "
           "against an independent grammar model (quick: <= 10-16 bytes and kernel fields up to 40 bytes; thorough: "
           "capacity classes up to 40 bytes, kernels up to 72 bytes).  Dual types: the dual parser is decided equal to the "
           "raw parser of the same capacity (accepted set, index, errors; compress precondition) on 40-byte texts, its "
           "results have raw lengths within capacity; the full object-level obligation runs in the thorough tier.",
    "C05": "Bounded model checking of the formatter on symbolic valid objects and symbolic buffers (full capacity in the "
           "thorough tier) against an independent text model; allocating paths with short block hashes.",
    "C06": "Bounded model checking of both instantiations of the normalization kernel against a local-criterion model: "
           "every content up to a length bound (32 symbols full for <32>, 32-48 for <64>) and a full-capacity family with "
           "one planted run of every length at every position; routes on bounded objects.",
    "C07": "Bounded model checking of the RLE kernels against canonical-form models (unrestricted content up to 6-16 "
           "symbols; planted-run family at full capacity in the thorough tier), update_rle_block on its whole "
           "precondition, 'accepted => canonical', object wiring.",
    "C08": "SMT (z3, second solver) inductive step of the bit-parallel LCS recurrence extracted from the MIR of the real "
           "function at the full 64-bit width (strings of any length), plus CBMC bounded checks of the whole function "
           "against a textbook DP on short strings.",
    "C09": "Small-scope bounded model checking of the common-substring scan against its definition (64 symbols: |a|<=10, "
           "|b|<=9; small alphabets up to |a|<=64, |b|<=16; arbitrary masks).",
    "C10": "Bounded model checking of the score laws and of 'candidate <=> index windows intersect' on symbolic pairs; "
           "window encoding and injectivity on complete domains.",
    "C11": "One inductive step per operation: arbitrary valid inputs / dirty destinations give valid outputs; "
           "out-of-contract constructors: 'returned => valid' with debug assertions on and off; validity checks total on "
           "arbitrary bit patterns.",
    "C12": "Bounded model checking from arbitrary (reset: completely arbitrary) generator states of the hint / reset / "
           "error contract, tied to the C01 simulation invariant.",
    "C13": "Complete-domain queries for the block-size border arithmetic (every size 0..=192GiB+1) and the C01 inductive "
           "queries for the ranges that reach index 30 and the last-piece hash.",
    "C14": "The same queries re-run per feature set x debug-assertion setting against the same reference models "
           "(quick: 4 configurations, cheap queries in all of them, the parser and generator queries in the two configurations each whose feature changes that code; thorough: every query in 14 configurations).",
    "C15": "Bounded model checking per conversion edge on symbolic valid sources and dirty destinations (plain edges at "
           "full capacity in the thorough tier).",
    "C16": "Bounded model checking of Eq / Hash / Ord on symbolic pairs and triples against the documented order "
           "(full capacity in the thorough tier).",
    "C17": "Bounded model checking from an arbitrary pre-state: init_from / clear / From equal the reference masks; "
           "has_sequences on its complete domain.",
    "C18": "Bounded model checking of the real read loop hash_stream_common with a scripted nondeterministic reader (stream "
           "<= 6 bytes in arbitrary chunks of 1..=3 bytes, arbitrary error kind at an arbitrary read) and a recording stand-in "
           "for the generator (Kani stubbing).  hash_file's File::open / metadata are operating-system I/O outside this technique.",
    "C19": "Complete-domain CBMC query for the FNV step; SMT inductive step (from MIR) for the rolling hash: value after "
           "any byte sequence is the stated function of the last seven bytes; bounded checks of the update forms.",
    "C20": "Every query quantifies over the complete finite domain named in the property (no bound).",
}
for k, v in LEVEL_TEXT.items():
    PROP_META.setdefault(k, {})["level_text"] = v
PROP_META["C18"]["level_note"] = ("Trusted: Kani/CBMC, the Read contract as modelled by the harness reader.  NOT covered by "
                                  "this technique: hash_file's File::open / metadata() (OS I/O: missing files, directories, "
                                  "procfs entries) -- only the part of hash_file after the open (size hint + "
                                  "hash_stream_common) is checked.")
for k in ("C08", "C19"):
    PROP_META[k]["engine"] = "kani-cbmc + mir2smt"
add(Q("c17_pa_init_step_smt", "C17", harness="pa_init_step", engine="smt", cap=(60, 120), cost=50,
      shape="inductive step",
      bound="none on string length (<= 64): the loop body of init_from_partial, for ANY masks, any position i < 64 and any "
            "symbol < 64, ORs exactly bit i into the mask of that symbol and leaves the other 63 masks untouched -- the "
            "recurrence of the reference masks, so an array built from zeroed masks represents exactly its string",
      enc=["BlockHashPositionArrayImplMutInternal::init_from_partial (MIR: loop body)"],
      assumptions=["i < 64 and symbol < 64 (the documented contract; the checked entry point asserts both)",
                   "the loop visits positions 0..len in order (core::slice::Iter / Enumerate are trusted)"]))
PROP_META["C17"]["engine"] = "kani-cbmc + mir2smt"
for cfg in ("unchecked", "unchecked-release", "unsafe", "unsafe-release"):
    tq = ("quick", "thorough") if cfg == "unchecked-release" else ("thorough",)
    c14("unchecked_block_size", M_BLOCK, "c14_unchecked_block_size", cfg, tq, (300, 600), 10,
        "from_log_unchecked / log_from_valid_unchecked == checked, complete domain", ["block_size::*_unchecked"])
    c14("unchecked_score_arithmetic", M_CMP, "c14_unchecked_score_arithmetic", cfg, tq, (300, 600), 20,
        "raw_score / score_cap unchecked == checked on their contracts (complete domain)",
        ["raw_score_by_edit_distance_unchecked", "score_cap_on_block_hash_comparison_unchecked"])
    c14("unchecked_position_array_l8", M_PA, "c14_unchecked_position_array_l8", cfg, ("thorough",), (900, 2400), 600,
        "BlockHashPositionArrayImplUnchecked == BlockHashPositionArrayImpl, strings <= 8",
        ["is_equiv_unchecked", "has_common_substring_unchecked", "edit_distance_unchecked", "score_strings_raw_unchecked",
         "score_strings_unchecked"], unwindset=pa_rules(n_ed=9, n_cs=9, n_init=9), mem=14)
    for pr in ("3_3", "3_4", "30_29"):
        c14("unchecked_target_" + pr, M_CMP, "c14_unchecked_target_" + pr, cfg, ("thorough",), (900, 3000), 900,
            "compare_*_unchecked / is_comparison_candidate_*_unchecked == checked, block hashes <= 7, sizes " + pr,
            ["FuzzyHashCompareTarget::*_unchecked", "FuzzyHashData::compare_unequal_unchecked"], unwindset=C02_RULES, mem=14)
    for nm in ("c14_unchecked_constructors_short_norm_m8", "c14_unchecked_constructors_long_raw_m8"):
        c14(nm[4:], M_HASH, nm, cfg, ("thorough",), (900, 2400), 400,
            "unchecked constructors == checked ones on valid arguments, block hashes <= 8",
            ["new_from_internals_raw_unchecked", "init_from_internals_raw_unchecked", "new_from_internals_near_raw_unchecked",
             "new_from_internals_unchecked"])

# capacity boundary of the collapsing parser in the quick tier (structured prefix, free tail)
for (nm, N, T, tiers, cap, cost) in [("c04_bh32_t40_norm_tail", 32, 40, ("quick", "thorough"), (900, 1800), 300),
                                     ("c04_bh64_t72_norm_tail", 64, 72, ("thorough",), (0, 3000), 1500)]:
    K(nm, "C04", M_ALG, tiers=tiers, cap=cap, cost=cost, mem=12, unwindset=alg_rules(n_text=T + 2), shape="BMC",
      bound="block hash field kernel ::<%d>, collapsing: %d run-free symbols followed by every byte string of <= 11 bytes "
            "(capacity reached and exceeded, raw and collapsed)" % (N, N - 3),
      enc=["parse_block_hash_from_bytes::<_,%d>" % N])
# routes that other properties' queries already decide, listed where the property names them
K("c06_dual_route_kernel32_b6", "C06", M_DUAL, fn="c07_kernel32_b6", cfg="release", tiers=("quick",), cap=(900, 0), cost=300, mem=12,
  unwindset=dual_rules(n_in=7, n_rle=9), shape="BMC",
  bound="normalized part produced by the dual route (compress ::<32,8>) == spec_norm, raw length <= 6",
  enc=["compress_block_hash_with_rle::<32,8>"], assumptions=[ASSUME_SYM])
K("c06_dual_route_kernel64_b4", "C06", M_DUAL, fn="c07_kernel64_b4", cfg="release", tiers=("quick",), cap=(900, 0), cost=300, mem=12,
  unwindset=dual_rules(n_in=7, n_rle=17), shape="BMC",
  bound="normalized part produced by the dual route (compress ::<64,16>) == spec_norm, raw length <= 4",
  enc=["compress_block_hash_with_rle::<64,16>"], assumptions=[ASSUME_SYM])
K("c06_dual_route_kernel32_b12", "C06", M_DUAL, fn="c07_kernel32_b12", cfg="release", tiers=("thorough",), cap=(0, 2400), cost=900, mem=12,
  unwindset=dual_rules(n_in=13, n_rle=9), shape="BMC",
  bound="normalized part produced by the dual route (compress ::<32,8>) == spec_norm, raw length <= 12",
  enc=["compress_block_hash_with_rle::<32,8>"], assumptions=[ASSUME_SYM])
K("c02_reused_target_init_lite_m3", "C02", M_CMP, fn="c17_target_init_lite_short_m3", cfg="release", cap=(600, 1200), cost=100, mem=12,
  unwindset=pa_rules(n_init=4) + [("@memcmp.0", 520)], shape="inductive step",
  bound="the reusable comparison target: init_from on an ARBITRARY (previously used) target == the reference target, block hashes <= 3",
  enc=["FuzzyHashCompareTarget::init_from"], assumptions=[ASSUME_SYM])
K("c02_reused_target_init_m6", "C02", M_CMP, fn="c17_target_init_short_m6", cfg="release", cap=(900, 2400), cost=400, mem=14,
  unwindset=pa_rules(n_init=7) + [("@memcmp.0", 520)], shape="inductive step",
  bound="the reusable comparison target: init_from on an ARBITRARY (previously used) target == a fresh target, block hashes <= 6",
  enc=["FuzzyHashCompareTarget::init_from", "From<&FuzzyHashData>"], assumptions=[ASSUME_SYM])

# aliases: queries that decide the part of another property naming the same behaviour
K("c11_dual_compress_dirty_outputs_b6", "C11", M_DUAL, fn="c07_kernel32_b6", cfg="release", cap=(900, 2400), cost=300, mem=12,
  unwindset=dual_rules(n_in=7, n_rle=9), shape="inductive step",
  bound="compress into ARBITRARY (previously used) output buffers leaves a canonical, valid (normalized part, RLE block); raw length <= 6",
  enc=["compress_block_hash_with_rle::<32,8>", "is_valid_rle_block_for_block_hash"], assumptions=[ASSUME_SYM])
K("c11_dual_reused_destination_m4", "C11", M_DUAL, fn="c07_object_build_short_m4", cfg="release", tiers=("thorough",), cap=(900, 3600), cost=900, mem=14,
  unwindset=dual_rules(n_in=5, n_rle=17) + alg_rules(n_norm=5, n_verify=6), shape="inductive step",
  bound="init_from_raw_form into an ARBITRARY (previously used) dual object gives the same valid object as a fresh build; <= 4 symbols",
  enc=["FuzzyHashDualData::init_from_raw_form", "compress_block_hash_with_rle", "is_valid"], assumptions=[ASSUME_SYM])
K("c13_fork_limit_for_every_hint", "C13", M_GEN, fn="c12_set_fixed_input_size", cfg="release", cap=(600, 1500), cost=300,
  shape="inductive step", bound="set_fixed_input_size(n) for every n: fork limit == min(30, level(n)+1), never above the largest block size",
  enc=["Generator::set_fixed_input_size"], assumptions=ASSUME_GEN[:1])
K("c13_hint_keeps_limit_ok", "C13", M_GEN, fn="c12_hint_keeps_limit_ok", cfg="release", shape="full domain", cap=(300, 600), cost=10,
  bound="every hint n <= 192 GiB: the invariant (limit <= 30) and the reachability of every selectable level hold",
  enc=["Generator::set_fixed_input_size"])
for nm in ("c16_pair_long_raw_m4_40", "c16_pair_long_norm_m4_40"):
    K(nm, "C16", M_HASH, cfg="release", cap=(900, 2400), cost=300, mem=12, unwindset=[("@memcmp.0", 70)], shape="BMC",
      bound="pairs of valid long hashes, block hash 1 <= 4, block hash 2 <= 40 symbols (differences beyond index 32)",
      enc=["PartialEq::eq", "Ord::cmp", "Hash::hash"], assumptions=["both objects valid (spec_valid)"])

K("c19_roll_slice_forms_l9", "C19", M_ROLL, cfg="release", shape="BMC", cap=(600, 1500), cost=120,
  bound="ARBITRARY internal state, slices of <= 9 bytes (longer than the window): update / update_by_iter / += forms == byte-wise",
  enc=["RollingHash::update", "update_by_iter", "update_by_byte", "AddAssign<&[u8]>", "AddAssign<&[u8; N]>"])
K("c08_ed_long_a_short_b_q", "C08", M_PA, fn="c08_ed_long_a_short_b", cfg="release", tiers=("quick",), unwindset=pa_rules(n_ed=4),
  cap=(900, 0), cost=200, mem=10, shape="BMC",
  bound="|a| in {63,64} over 4 symbols, |b| <= 3 (top bits of the 64-bit vector, full-length strings)",
  enc=["BlockHashPositionArrayImplInternal::edit_distance_internal"], assumptions=[ASSUME_SYM, ASSUME_MASKS])

K("c04_dual_capacity_bh2_short_tail", "C04", M_DUAL, cfg="release", tiers=("thorough",), cap=(900, 3600), cost=2000, mem=14,
  unwindset=alg_rules(n_text=42, n_verify=42) + dual_rules(n_in=42, n_rle=17), shape="BMC",
  bound="dual parser, capacity class: '3::' + 29 fixed pairwise different symbols + every byte string of <= 8 bytes (block hash 2 "
        "reaches and exceeds 32 symbols raw, with runs that collapse)",
  enc=["FuzzyHashDualData::from_bytes_with_last_index", "from_raw_form", "to_raw_form", "is_valid"])
K("c11_dual_parser_like_raw_fixed40", "C11", M_DUAL, fn="c04_dual_like_raw_short_fixed40", cfg="release", cap=(900, 2400), cost=500, mem=14, stubbing=True,
  unwindset=alg_rules(n_text=42, n_verify=42), shape="BMC",
  bound="the dual parser never accepts (or panics on) a text the raw parser of the same capacity rejects, and hands compress "
        "only block hashes within capacity: '3::' + every 37 bytes (compress stubbed)",
  enc=["FuzzyHashDualData::from_bytes_with_last_index"])
K("c11_dual_parser_valid_tail", "C11", M_DUAL, fn="c04_dual_capacity_bh2_short_tail", cfg="release", tiers=("thorough",), cap=(900, 3600), cost=2000, mem=14,
  unwindset=alg_rules(n_text=42, n_verify=42) + dual_rules(n_in=42, n_rle=17), shape="BMC",
  bound="dual parser on the capacity class '3::' + 29 run-free symbols + <= 8 free bytes: Ok => is_valid, never panics",
  enc=["FuzzyHashDualData::from_bytes_with_last_index"])

for (a, b) in [(3, 3), (30, 30)]:
    K("c10_c_s_m7a4_%d_%d" % (a, b), "C10", M_CMP, cfg="release", tiers=("thorough",), cap=(1500, 3000), cost=600, mem=12, unwindset=C02_RULES, shape="BMC",
      bound="score > 0 <=> equal or candidate; candidate <=> index windows intersect; equal block sizes (3<<%d), block hashes <= 7 symbols over a 4-symbol alphabet" % a,
      enc=["FuzzyHashCompareTarget::is_comparison_candidate(_near_eq)", "compare", "block_hash_{1,2}_index_windows"],
      assumptions=[ASSUME_SYM, "both hashes valid and normalized (spec_valid)"])
    K("c10_c_s_m7_%d_%d" % (a, b), "C10", M_CMP, cfg="release", tiers=("thorough",), cap=(900, 3600), cost=500, mem=12, unwindset=C02_RULES, shape="BMC",
      bound="score > 0 <=> equal or candidate; candidate <=> index windows intersect; equal block sizes (3<<%d), block hashes <= 7 symbols" % a,
      enc=["FuzzyHashCompareTarget::is_comparison_candidate(_near_eq)", "compare", "block_hash_{1,2}_index_windows"],
      assumptions=[ASSUME_SYM, "both hashes valid and normalized (spec_valid)"])
# C10 quick tier (round 2): the whole-obligation queries c10_c_s_m8_* need 520-640 s each on this machine, which is
# too long for the per-change tier.  The same obligation is decided as two independent halves per block-size pair --
# (w) candidate <=> index windows intersect (general and near_* forms), without the score computation, and
# (p) score > 0 <=> same content or candidate -- each 160-290 s, run in parallel.  Equal block sizes (two block-hash
# comparisons, 490-590 s even split) are covered in the quick tier with ONE block hash free and the other concretely
# empty on both sides; the two-free-block-hash form stays in the thorough tier (c10_c_s_m8_n_n, c10_c_s_m7_*,
# c10_w_s_m8_3_3, c10_p_s_m7a4_3_3).
C10_ENC_W = ["FuzzyHashCompareTarget::is_comparison_candidate(_near_*)", "has_common_substring_internal",
             "block_hash_{1,2}_index_windows"]
C10_ENC_P = ["FuzzyHashCompareTarget::compare", "is_comparison_candidate", "score_strings_internal"]
for (a, b) in [(3, 4), (30, 29)]:
    K("c10_w_s_m8_%d_%d" % (a, b), "C10", M_CMP, cfg="release", cap=(900, 2400), cost=300, mem=12, unwindset=C02_RULES, shape="BMC",
      bound="candidate <=> index windows intersect (general form and near_lt / near_gt form); block sizes (3<<%d, 3<<%d), "
            "block hashes <= 8 symbols over 64 symbols" % (a, b),
      enc=C10_ENC_W, assumptions=[ASSUME_SYM, "both hashes valid and normalized (spec_valid)"])
    K("c10_p_s_m8_%d_%d" % (a, b), "C10", M_CMP, cfg="release", cap=(900, 2400), cost=280, mem=12, unwindset=C02_RULES, shape="BMC",
      bound="score > 0 <=> same content or candidate; block sizes (3<<%d, 3<<%d), block hashes <= 8 symbols over 64 symbols" % (a, b),
      enc=C10_ENC_P, assumptions=[ASSUME_SYM, "both hashes valid and normalized (spec_valid)"])
for (nm, enc, what) in [("c10_w_s_m8_eq1_3", C10_ENC_W, "candidate <=> index windows intersect (general and near_eq form); equal block sizes 3<<3, block hash 1 <= 8 symbols, block hash 2 empty on both sides"),
                        ("c10_w_s_m8_eq2_30", C10_ENC_W, "candidate <=> index windows intersect (general and near_eq form); equal block sizes 3<<30, block hash 2 <= 8 symbols, block hash 1 empty on both sides"),
                        ("c10_p_s_m8_eq1_30", C10_ENC_P, "score > 0 <=> same content or candidate, same content => 100; equal block sizes 3<<30, block hash 1 <= 8 symbols, block hash 2 empty on both sides"),
                        ("c10_p_s_m8_eq2_3", C10_ENC_P, "score > 0 <=> same content or candidate, same content => 100; equal block sizes 3<<3, block hash 2 <= 8 symbols, block hash 1 empty on both sides")]:
    K(nm, "C10", M_CMP, cfg="release", cap=(900, 2400), cost=250, mem=12, unwindset=C02_RULES, shape="BMC", bound=what,
      outside="equal block sizes with both block hashes non-empty are decided in the thorough tier (c10_c_s_m8_n_n, c10_c_s_m7_n_n)",
      enc=enc, assumptions=[ASSUME_SYM, "both hashes valid and normalized (spec_valid)"])
K("c10_w_s_m8_3_3", "C10", M_CMP, cfg="release", tiers=("thorough",), cap=(0, 3000), cost=600, mem=12, unwindset=C02_RULES, shape="BMC",
  bound="candidate <=> index windows intersect (general and near_eq form); equal block sizes 3<<3, block hashes <= 8 symbols",
  enc=C10_ENC_W, assumptions=[ASSUME_SYM])
K("c10_p_s_m7a4_3_3", "C10", M_CMP, cfg="release", tiers=("thorough",), cap=(0, 3000), cost=500, mem=12, unwindset=C02_RULES, shape="BMC",
  bound="score > 0 <=> same content or candidate; equal block sizes 3<<3, block hashes <= 7 symbols over 4 symbols",
  enc=C10_ENC_P, assumptions=[ASSUME_SYM])
K("c11_conversions_dirty_dest_m16", "C11", M_HASH, fn="c15_short_long_raw_m16", cfg="release", cap=(600, 2400), cost=200, mem=12, shape="inductive step",
  bound="short<->long conversions into ARBITRARY (previously used) destinations give valid objects; block hashes <= 16",
  enc=["to_long_form", "into_mut_long_form", "try_into_mut_short", "TryFrom"], assumptions=["source valid (spec_valid)"])
K("c11_normalize_outputs_valid_m6", "C11", M_HASH, fn="c06_routes_short_m6", cfg="release", cap=(600, 2400), cost=200, mem=12,
  unwindset=alg_rules(n_norm=7, n_verify=8), shape="inductive step",
  bound="every normalization route yields a valid normalized object; block hashes <= 6",
  enc=["normalize", "normalize_in_place", "clone_normalized", "from_raw_form"], assumptions=["source valid (spec_valid)"])
