"""Registration of all queries (fills queries.ALL) and per-property metadata."""
from . import queries
from .queries import Q, add

M_BLOCK = "src/internals/hash/block/tests.rs"
M_CMP = "src/internals/compare/tests.rs"
M_PA = "src/internals/compare/position_array/tests.rs"
M_ALG = "src/internals/hash/algorithms/tests.rs"
M_HASH = "src/internals/hash/tests.rs"
M_DUAL = "src/internals/hash_dual/tests.rs"
M_GEN = "src/internals/generate/tests.rs"
M_FNV = "src/internals/generate/hashes/partial_fnv/tests.rs"
M_ROLL = "src/internals/generate/hashes/rolling_hash/tests.rs"
M_EASY = "src/internals/generate_easy/tests.rs"
M_STD = "src/internals/generate_easy_std/tests.rs"
M_CEASY = "src/internals/compare_easy/tests.rs"
M_UTILS = "src/internals/utils/tests.rs"


def modpath(module):
    # src/internals/hash/block/tests.rs -> internals::hash::block::tests
    p = module[len("src/"):-len(".rs")]
    return p.replace("/", "::")


def K(name, prop, module, **kw):
    """Kani query whose harness function is `name` in overlay module `module`."""
    hname = kw.pop("fn", name)
    q = Q(name, prop, harness=modpath(module) + "::" + hname, module=module, **kw)
    add(q)
    return q


PROP_META = {}

# ------------------------------------------------------------------------------------
# C20 — block-size and score arithmetic on the entire domain
# ------------------------------------------------------------------------------------
PROP_META["C20"] = {
    "technique": "Kani/CBMC bounded model checking over the compiled real functions; every query "
                 "quantifies over the complete finite domain (no bound)",
    "exhaustive_quick": True, "exhaustive_thorough": True,
    "assumptions": ["rustc/Kani codegen, CBMC 6.11 and CaDiCaL are correct",
                    "const tables are evaluated by rustc (Kani sees their values)"],
}
K("c20_is_valid_full_u32", "C20", M_BLOCK, shape="full domain", bound="none: all 2^32 block sizes",
  enc=["block_size::is_valid"], cap=(120, 300), cost=5)
K("c20_log_roundtrip", "C20", M_BLOCK, shape="full domain", bound="none: all 256 u8 logarithms",
  enc=["block_size::is_log_valid", "block_size::from_log", "block_size::log_from_valid",
       "block_size::log_from_valid_internal"], cap=(120, 300), cost=5)
K("c20_log_from_valid_full", "C20", M_BLOCK, shape="full domain", bound="none: all valid u32 block sizes",
  enc=["block_size::log_from_valid", "block_size::debruijn_index", "LOG_DEBRUIJN_TABLE"], cap=(120, 300), cost=5)
K("c20_block_size_strings", "C20", M_BLOCK, shape="full domain", bound="none: all 31 table entries",
  enc=["block_size::BLOCK_SIZES_STR", "block_size::MAX_BLOCK_SIZE_LEN_IN_CHARS"], cap=(120, 300), cost=5)
K("c20_relations_full", "C20", M_BLOCK, shape="full domain", bound="none: all 31x31 pairs of logarithms",
  enc=["block_size::is_near", "is_near_eq", "is_near_lt", "is_near_gt", "compare_sizes", "cmp",
       "BlockSizeRelation::is_near"], cap=(120, 300), cost=5)
K("c20_raw_score_full", "C20", M_CMP, shape="full domain",
  bound="none: all (l1,l2,d), 7<=l<=64, d<=l1+l2-14",
  enc=["FuzzyHashCompareTarget::raw_score_by_edit_distance", "raw_score_by_edit_distance_internal"],
  assumptions=["documented contract of raw_score_by_edit_distance (lengths 7..=64, d <= l1+l2-14)"],
  cap=(300, 600), cost=30)
K("c20_score_cap_full", "C20", M_CMP, shape="full domain", bound="none: all (n,l1,l2) in 0..=31 x 0..=64 x 0..=64",
  enc=["FuzzyHashCompareTarget::score_cap_on_block_hash_comparison", "score_cap_on_block_hash_comparison_internal",
       "LOG_BLOCK_SIZE_CAPPING_BORDER"], cap=(300, 600), cost=20)
K("c20_u64_lsb_ones_full", "C20", M_UTILS, shape="full domain", bound="none: n in 0..=64",
  enc=["utils::u64_lsb_ones"], cap=(120, 300), cost=5)
K("c20_u64_ilog2_full", "C20", M_UTILS, shape="full domain", bound="none: all non-zero u64",
  enc=["utils::u64_ilog2"], cap=(120, 300), cost=5)


# ------------------------------------------------------------------------------------

def select(prop, tier, seed, qs):
    """Hook for seed-rotated subsets of exhaustive families (quick tier)."""
    return qs


def generated_files(qs):
    """Files generated into the shadow (harness instantiations); {rel path: text}."""
    return {}


# ------------------------------------------------------------------------------------
# C08 / C09 / C17 (position arrays)
# ------------------------------------------------------------------------------------
PA_SRC = "ffuzzy/src/internals/compare/position_array.rs"


def pa_rules(n_ed=None, n_cs=None, n_init=None):
    r = []
    if n_ed is not None:
        r.append((r"edit_distance_internal", n_ed))
    if n_cs is not None:
        r.append((r"has_common_substring_internal", n_cs))
    if n_init is not None:
        r.append((r"init_from_partial", n_init))
        r.append((r"is_equiv_internal|Iterator>::all::<.closure@" + PA_SRC, n_init))
        r.append((r"Iterator>::all::<.closure@.*enumerate|Enumerate<.*all", n_init))
    return r


ASSUME_SYM = "block-hash symbols < 64 (documented range; 0x40 is the parser's sentinel)"
ASSUME_MASKS = ("position arrays consumed by the function under test are the reference masks of the string "
                "(spec_masks); c17_pa_init_* proves the real constructor produces exactly those")

PROP_META["C08"] = {
    "technique": "Kani/CBMC BMC of edit_distance_internal against a textbook LCS DP on symbolic strings "
                 "(bounded length) + SMT (z3, cvc5) inductive step of the bit-parallel recurrence extracted "
                 "from the MIR at the full 64-bit width",
    "assumptions": ["reference model: row DP for LCS (harness/spec/lcs.rs)"],
}
for (L, alpha, tiers, cap, cost) in [(4, 64, ("quick", "thorough"), (420, 900), 120),
                                     (5, 64, ("thorough",), (0, 1500), 300),
                                     (6, 64, ("thorough",), (0, 2400), 500),
                                     (8, 4, ("thorough",), (0, 2400), 500)]:
    K("c08_ed_l%d_a%d" % (L, alpha), "C08", M_PA, cfg="release", tiers=tiers,
      unwindset=pa_rules(n_ed=L + 1), cap=cap, cost=cost, mem=10,
      shape="BMC", bound="both strings <= %d symbols over %d symbols; both argument orders" % (L, alpha),
      outside="longer strings (covered by the inductive 64-bit step, not by this query)",
      enc=["BlockHashPositionArrayImplInternal::edit_distance_internal"],
      assumptions=[ASSUME_SYM, ASSUME_MASKS, "debug assertions off (is_valid() debug_assert not compiled)"])
K("c08_ed_long_a_short_b", "C08", M_PA, cfg="release", tiers=("thorough",),
  unwindset=pa_rules(n_ed=4), cap=(0, 1800), cost=400, mem=10,
  shape="BMC", bound="|a| in {63,64} over 4 symbols, |b| <= 3 (carry chains through the top bits)",
  enc=["BlockHashPositionArrayImplInternal::edit_distance_internal"], assumptions=[ASSUME_SYM, ASSUME_MASKS])
K("c08_checked_wrapper", "C08", M_PA, cfg="release", cap=(420, 900), cost=100, mem=10,
  shape="BMC", bound="lengths (2,2) concrete, contents symbolic; real init_from + is_valid",
  enc=["BlockHashPositionArrayImpl::edit_distance", "BlockHashPositionArray::init_from",
       "BlockHashPositionArrayData::is_valid"], assumptions=[ASSUME_SYM])

PROP_META["C09"] = {
    "technique": "Kani/CBMC BMC of has_common_substring_internal against 'exists a shared 7-gram' on symbolic "
                 "strings / arbitrary masks (small scope: bounded lengths, small alphabets for the longer ones)",
    "assumptions": ["small-alphabet argument (DESIGN.md C09): the scan touches symbols only through rep[sym]"],
}
for (LA, LB, alpha, tiers, cap, cost) in [(10, 9, 64, ("quick", "thorough"), (420, 1200), 120),
                                          (12, 12, 4, ("quick", "thorough"), (420, 1200), 100),
                                          (16, 12, 4, ("thorough",), (0, 1800), 300),
                                          (16, 16, 2, ("thorough",), (0, 1800), 300),
                                          (64, 16, 4, ("thorough",), (0, 2400), 600)]:
    K("c09_cs_a%d_b%d_s%d" % (LA, LB, alpha), "C09", M_PA, cfg="release", tiers=tiers,
      unwindset=pa_rules(n_cs=LB), cap=cap, cost=cost, mem=10,
      shape="BMC", bound="|a| <= %d, |b| <= %d over %d symbols" % (LA, LB, alpha),
      outside="|b| > %d" % LB, enc=["BlockHashPositionArrayImplInternal::has_common_substring_internal"],
      assumptions=[ASSUME_SYM, ASSUME_MASKS])
K("c09_masks_b12_s4_len16", "C09", M_PA, cfg="release", unwindset=pa_rules(n_cs=12),
  cap=(420, 1200), cost=60, shape="BMC",
  bound="arbitrary masks for 4 symbols without bits >= len <= 16, |b| <= 12",
  enc=["BlockHashPositionArrayImplInternal::has_common_substring_internal"],
  assumptions=["no mask bits at positions >= len"])
K("c09_masks_b16_s4_len64", "C09", M_PA, cfg="release", tiers=("thorough",),
  unwindset=pa_rules(n_cs=16), cap=(0, 2400), cost=600, shape="BMC",
  bound="arbitrary masks for 4 symbols, len <= 64, |b| <= 16",
  enc=["BlockHashPositionArrayImplInternal::has_common_substring_internal"],
  assumptions=["no mask bits at positions >= len"])
K("c09_checked_wrapper", "C09", M_PA, cfg="release", cap=(420, 900), cost=100, mem=10,
  shape="BMC", bound="lengths (8,8) concrete, contents symbolic; real init_from + is_valid",
  enc=["BlockHashPositionArrayImpl::has_common_substring", "BlockHashPositionArray::init_from"],
  assumptions=[ASSUME_SYM])


# ------------------------------------------------------------------------------------
# kernels in hash/algorithms.rs: C06 (normalize, verify), C04 (parser kernels), C05 (base64)
# ------------------------------------------------------------------------------------
ALG_SRC = "ffuzzy/src/internals/hash/algorithms.rs"


def alg_rules(n_norm=None, n_verify=None, n_text=None, n_insert=None):
    r = []
    if n_norm is not None:
        r.append((r"normalize_block_hash_in_place_internal", n_norm))
    if n_verify is not None:
        # loop over blockhash[..len]; the zero-tail scan (Iterator::any over [len..N]) keeps the default 66
        r.append((r"verify_block_hash_internal", n_verify))
    if n_text is not None:
        r.append((r"parse_block_hash_from_bytes|parse_block_size_from_bytes", n_text))
    if n_insert is not None:
        r.append((r"insert_block_hash_into_bytes", n_insert))
    return r


PROP_META["C06"] = {
    "technique": "Kani/CBMC BMC of the normalization kernels (<32> and <64> instantiations) against a "
                 "local-criterion model on symbolic block hashes (family A: unrestricted content up to a length "
                 "bound; family B: full capacity with one planted run of symbolic position and length), plus "
                 "route equivalence on symbolic hash objects",
    "assumptions": ["reference model spec_norm: symbol i is dropped iff its three predecessors equal it"],
}
for (N, B, tiers, cap, cost) in [(32, 16, ("quick",), (420, 0), 60), (32, 32, ("thorough",), (0, 1500), 300),
                                 (64, 16, ("quick",), (420, 0), 60), (64, 32, ("thorough",), (0, 1800), 500)]:
    K("c06_norm%d_b%d" % (N, B), "C06", M_ALG, cfg="release", tiers=tiers, cap=cap, cost=cost,
      unwindset=alg_rules(n_norm=B + 1), shape="BMC",
      bound="normalize kernel ::<%d>, every content of raw length <= %d over 64 symbols" % (N, B),
      outside="raw length > %d with three or more long runs" % B,
      enc=["normalize_block_hash_in_place_internal::<%d>" % N], assumptions=[ASSUME_SYM])
# ladder for ::<64> at larger bounds (thorough): 64 -> 48
K("c06_norm64_b64", "C06", M_ALG, cfg="release", tiers=("thorough",), cap=(0, 2400), cost=2400, mem=14,
  unwindset=alg_rules(n_norm=65), ladder="c06_norm64_big", rung=64, shape="BMC",
  bound="normalize kernel ::<64>, every content of raw length <= 64 (full capacity)",
  enc=["normalize_block_hash_in_place_internal::<64>"], assumptions=[ASSUME_SYM])
K("c06_norm64_b48", "C06", M_ALG, cfg="release", tiers=("thorough",), cap=(0, 2400), cost=1500, mem=14,
  unwindset=alg_rules(n_norm=49), ladder="c06_norm64_big", rung=48, shape="BMC",
  bound="normalize kernel ::<64>, every content of raw length <= 48",
  enc=["normalize_block_hash_in_place_internal::<64>"], assumptions=[ASSUME_SYM])
for N in (32, 64):
    K("c06_norm%d_planted" % N, "C06", M_ALG, cfg="release", tiers=("quick", "thorough") if N == 32 else ("thorough",),
      cap=(420, 2400), cost=200, unwindset=alg_rules(n_norm=N + 1), shape="BMC",
      bound="normalize kernel ::<%d> at full capacity: one run of symbolic length 1..=%d at a symbolic position, "
            "run-free neighbours" % (N, N),
      enc=["normalize_block_hash_in_place_internal::<%d>" % N], assumptions=[ASSUME_SYM])
K("c06_norm_noop", "C06", M_ALG, cfg="release", cap=(300, 600), cost=20, shape="BMC",
  bound="arbitrary 64-byte array and length (originally_normalized = true is the identity)",
  enc=["normalize_block_hash_in_place_internal::<64>", "normalize_block_hash_in_place::<64,true>"])
K("c06_verify32_b32", "C06", M_ALG, cfg="release", cap=(420, 900), cost=70, unwindset=alg_rules(n_verify=34),
  shape="BMC", bound="verify kernel ::<32>, arbitrary bytes, length <= 32, all flag combinations",
  enc=["verify_block_hash_internal::<32>"],
  assumptions=["symbols < 64 assumed only for (verify_normalization && !verify_data_range_in)"])
K("c06_verify64_b64", "C06", M_ALG, cfg="release", tiers=("thorough",), cap=(0, 1800), cost=300,
  unwindset=alg_rules(n_verify=66), shape="BMC",
  bound="verify kernel ::<64>, arbitrary bytes, length <= 64, all flag combinations",
  enc=["verify_block_hash_internal::<64>"])
K("c06_verify64_b16", "C06", M_ALG, cfg="release", tiers=("quick",), cap=(420, 0), cost=60,
  unwindset=alg_rules(n_verify=18), shape="BMC",
  bound="verify kernel ::<64>, arbitrary bytes, length <= 16, all flag combinations",
  enc=["verify_block_hash_internal::<64>"])
K("c06_verify_wrappers", "C06", M_ALG, cfg="release", cap=(420, 900), cost=60, unwindset=alg_rules(n_verify=6),
  shape="BMC", bound="wrapper flag wiring, length <= 4",
  enc=["verify_block_hash_input", "verify_block_hash_current"])
for (S, m, tiers, cap, cost) in [("short", 8, ("quick", "thorough"), (480, 1200), 200),
                                 ("long", 8, ("thorough",), (0, 1200), 200),
                                 ("short", 12, ("thorough",), (0, 2400), 600),
                                 ("long", 12, ("thorough",), (0, 2400), 600)]:
    K("c06_routes_%s_m%d" % (S, m), "C06", M_HASH, cfg="release", tiers=tiers, cap=cap, cost=cost, mem=12,
      unwindset=alg_rules(n_norm=m + 1, n_verify=m + 8), shape="BMC",
      bound="all routes on %s hash objects, block hashes <= %d symbols" % (S, m),
      outside="object-level wrappers with longer block hashes (they only forward to the kernels)",
      enc=["FuzzyHashData::normalize", "normalize_in_place", "clone_normalized", "from_raw_form", "From<raw>",
           "is_normalized", "to_raw_form", "from_normalized", "into_mut_raw_form", "is_valid"],
      assumptions=[ASSUME_SYM, "source object valid (spec_valid)"])

PROP_META["C05"] = {
    "technique": "Kani/CBMC BMC of store_into_bytes / len_in_str / to_string / Display on symbolic valid objects "
                 "against an independent text model, symbolic buffer length and contents",
    "assumptions": ["reference model spec_text (decimal of 3<<n, RFC 4648 alphabet)"],
}
K("c05_base64_tables", "C05", M_ALG, shape="full domain", bound="none: all 256 bytes / all 64 symbols",
  enc=["base64::base64_index", "BASE64_TABLE_U8", "BASE64_REV_TABLE_U8"], cap=(120, 300), cost=5)
K("c05_insert_block_hash_b16", "C05", M_ALG, cfg="release", tiers=("quick",), cap=(420, 0), cost=60,
  unwindset=alg_rules(n_insert=18), shape="BMC", bound="block hash <= 16 symbols into a 72-byte buffer",
  enc=["insert_block_hash_into_bytes::<64>"], assumptions=[ASSUME_SYM])
K("c05_insert_block_hash_b64", "C05", M_ALG, cfg="release", tiers=("thorough",), cap=(0, 1200), cost=200,
  unwindset=alg_rules(n_insert=66), shape="BMC", bound="block hash <= 64 symbols (full) into a 72-byte buffer",
  enc=["insert_block_hash_into_bytes::<64>"], assumptions=[ASSUME_SYM])
for (nm, tiers, cap, cost, m) in [("c05_store_short_raw_m8", ("quick", "thorough"), (480, 1200), 200, 8),
                                  ("c05_store_long_norm_m8", ("quick", "thorough"), (480, 1200), 200, 8),
                                  ("c05_store_short_raw_full", ("thorough",), (0, 2400), 900, 64),
                                  ("c05_store_long_raw_full", ("thorough",), (0, 2400), 900, 64),
                                  ("c05_store_long_norm_full", ("thorough",), (0, 2400), 900, 64)]:
    K(nm, "C05", M_HASH, cfg="release", tiers=tiers, cap=cap, cost=cost, mem=12,
      unwindset=alg_rules(n_insert=m + 2), shape="BMC",
      bound="store_into_bytes: block hashes <= %d symbols, buffer of every length 0..=text+8" % m,
      enc=["FuzzyHashData::store_into_bytes", "len_in_str", "MAX_LEN_IN_STR", "insert_block_hash_into_bytes"],
      assumptions=[ASSUME_SYM, "object valid (spec_valid)"])
for nm in ("c05_alloc_forms_short_raw_m4", "c05_alloc_forms_long_norm_m4"):
    K(nm, "C05", M_HASH, cfg="release", tiers=("thorough",), cap=(0, 2400), cost=900, mem=12,
      unwindset=alg_rules(n_insert=6), shape="BMC",
      bound="to_string / String::from / Display: block hashes <= 4 symbols",
      outside="allocating paths with longer block hashes",
      enc=["FuzzyHashData::to_string", "From<FuzzyHashData> for String", "Display::fmt"],
      assumptions=[ASSUME_SYM, "object valid (spec_valid)"])

PROP_META["C04"] = {
    "technique": "Kani/CBMC BMC of the parser kernels and of the from_bytes drivers of all six types on fully "
                 "symbolic byte strings (bounded length) against an independent grammar model",
    "assumptions": ["reference model spec_grammar (harness/spec/grammar.rs)"],
}
K("c04_block_size_field", "C04", M_ALG, cap=(420, 900), cost=40, unwindset=alg_rules(n_text=15), shape="BMC",
  bound="block size field: every byte string of <= 13 bytes",
  outside="digit strings longer than 13 (all are 'too large')",
  enc=["parse_block_size_from_bytes", "block_size::is_valid"])
for (nm, N, T, norm, tiers, cap, cost) in [
        ("c04_bh32_t12_raw", 32, 12, False, ("quick",), (420, 0), 30),
        ("c04_bh32_t12_norm", 32, 12, True, ("quick",), (420, 0), 60),
        ("c04_bh32_t40_raw", 32, 40, False, ("quick", "thorough"), (480, 1200), 60),
        ("c04_bh32_t40_norm", 32, 40, True, ("thorough",), (0, 2400), 400),
        ("c04_bh64_t16_raw", 64, 16, False, ("quick",), (420, 0), 40),
        ("c04_bh64_t16_norm", 64, 16, True, ("quick",), (420, 0), 80),
        ("c04_bh64_t72_raw", 64, 72, False, ("thorough",), (0, 1800), 200),
        ("c04_bh64_t40_norm", 64, 40, True, ("thorough",), (0, 2400), 600)]:
    K(nm, "C04", M_ALG, tiers=tiers, cap=cap, cost=cost, mem=12, unwindset=alg_rules(n_text=T + 2), shape="BMC",
      bound="block hash field kernel ::<%d>, %s, every byte string of <= %d bytes"
            % (N, "collapsing" if norm else "plain", T),
      enc=["parse_block_hash_from_bytes::<_,%d>" % N, "base64::base64_index"])
K("c04_bh64_t72_norm", "C04", M_ALG, tiers=("thorough",), cap=(0, 3000), cost=3000, mem=14,
  unwindset=alg_rules(n_text=74), ladder="c04_bh64_norm_big", rung=72, shape="BMC",
  bound="block hash field kernel ::<64>, collapsing, every byte string of <= 72 bytes",
  enc=["parse_block_hash_from_bytes::<_,64>"])
for (S, s1, s2, norm) in [("short_norm", 64, 32, True), ("short_raw", 64, 32, False),
                          ("long_norm", 64, 64, True), ("long_raw", 64, 64, False)]:
    K("c04_driver_%s_t10" % S, "C04", M_HASH, tiers=("quick",), cap=(480, 0), cost=200, mem=12,
      unwindset=alg_rules(n_text=12, n_verify=12), shape="BMC",
      bound="from_bytes_with_last_index of FuzzyHashData<%d,%d,%s>: every byte string of <= 10 bytes" % (s1, s2, norm),
      enc=["FuzzyHashData::from_bytes_with_last_index", "from_bytes", "hash_from_bytes_with_last_index_internal_template",
           "parse_block_size_from_bytes", "parse_block_hash_from_bytes", "block_size::log_from_valid_internal"])
    K("c04_driver_%s_t16" % S, "C04", M_HASH, tiers=("thorough",), cap=(0, 2400), cost=900, mem=12,
      unwindset=alg_rules(n_text=18, n_verify=18), shape="BMC",
      bound="from_bytes_with_last_index of FuzzyHashData<%d,%d,%s>: every byte string of <= 16 bytes" % (s1, s2, norm),
      outside="texts > 16 bytes that are not of the capacity-class shape",
      enc=["FuzzyHashData::from_bytes_with_last_index", "from_bytes"])
for S in ("short_norm", "short_raw"):
    K("c04_capacity_bh2_%s_t40" % S, "C04", M_HASH, tiers=("thorough",), cap=(0, 2400), cost=900, mem=12,
      unwindset=alg_rules(n_text=42, n_verify=42), shape="BMC",
      bound="capacity class: '3::' + every byte string of <= 37 bytes (block hash 2 of the short type reaches and "
            "exceeds 32 symbols, raw and collapsed)",
      enc=["FuzzyHashData::from_bytes_with_last_index"])
