"""Run one Kani/CBMC query and classify its outcome.

Verdicts
  PASS          VERIFICATION:- SUCCESSFUL, every cover witness reachable
  FAIL          at least one property check failed (a counterexample exists)
  VACUOUS       verification succeeded but a cover witness is unreachable /
                unsatisfiable  -> the harness does not exercise what it claims
  UNWIND        an unwinding assertion failed: the bound is too small for the
                code (treated as inconclusive, never as success)
  TIMEOUT, OOM, ERROR   inconclusive

A timeout or out-of-memory run is never a pass.
"""
import os
import re
import resource
import signal
import subprocess
import time

CHECK_RE = re.compile(
    r"^Check (\d+): (.+)\n\t - Status: (\w+)\n\t - Description: \"((?:.|\n(?!\t - |Check \d|\n))*)\"\n(?:\t - Location: (.*)\n)?",
    re.M)


RUNNING = set()   # process-group ids of running solver processes (killed when the check is terminated)


def kill_all():
    for pid in list(RUNNING):
        try:
            os.killpg(pid, signal.SIGKILL)
        except (ProcessLookupError, PermissionError):
            pass


class Result:
    def __init__(self):
        self.verdict = "ERROR"
        self.wall_s = 0.0
        self.solver_s = None
        self.failed = []          # (check name, description, location)
        self.covers = (0, 0)      # satisfied, total
        self.unsat_covers = []
        self.vars = None
        self.clauses = None
        self.log = None
        self.checks_total = 0
        self.note = ""
        self.playback = None

    def to_json(self):
        return {
            "verdict": self.verdict, "wall_s": round(self.wall_s, 1),
            "solver_s": self.solver_s, "failed_checks": [list(f) for f in self.failed[:8]],
            "cover_satisfied": self.covers[0], "cover_total": self.covers[1],
            "sat_variables": self.vars, "sat_clauses": self.clauses,
            "property_checks": self.checks_total, "note": self.note,
        }


def _limits(mem_gb):
    def f():
        os.setsid()
        if mem_gb:
            lim = int(mem_gb * (1 << 30))
            resource.setrlimit(resource.RLIMIT_AS, (lim, lim))
    return f


def kani_env(debug_assertions=True):
    env = dict(os.environ)
    env["CARGO_NET_OFFLINE"] = "true"
    env.pop("RUST_BACKTRACE", None)
    env["RUST_BACKTRACE"] = "0"
    env.pop("RUSTFLAGS", None)
    if not debug_assertions:
        env["CARGO_PROFILE_DEV_DEBUG_ASSERTIONS"] = "false"
    else:
        env.pop("CARGO_PROFILE_DEV_DEBUG_ASSERTIONS", None)
    return env


def kani_cmd(harness, target_dir, features=None, no_default_features=False,
             unwind=None, extra=None, cbmc_args=None, stubbing=False, playback=False):
    cmd = ["cargo", "kani", "--harness", harness, "--exact", "--target-dir", target_dir]
    if no_default_features:
        cmd.append("--no-default-features")
    if features:
        cmd += ["--features", ",".join(features)]
    if unwind is not None:
        cmd += ["--default-unwind", str(unwind)]
    zflags = []
    if stubbing:
        zflags.append("stubbing")
    if playback:
        zflags.append("concrete-playback")
    if cbmc_args:
        zflags.append("unstable-options")
    for z in zflags:
        cmd += ["-Z", z]
    if playback:
        cmd += ["--concrete-playback=print"]
    if extra:
        cmd += list(extra)
    if cbmc_args:
        cmd += ["--cbmc-args"] + list(cbmc_args)
    return cmd


def parse_log(text, res, only_tag=None, expected_panics=False):
    checks = CHECK_RE.findall(text)
    res.checks_total = len(checks)
    m = re.search(r"(\d+) variables, (\d+) clauses", text)
    if m:
        res.vars, res.clauses = int(m.group(1)), int(m.group(2))
    m = re.findall(r"Verification Time: ([0-9.]+)s", text)
    if m:
        res.solver_s = round(float(m[-1]), 2)
    failed, unwind_fail, undetermined = [], False, False
    cov_sat = cov_tot = 0
    unsat = []
    tag_seen = False
    tag_ok = True
    for num, name, status, desc, loc in checks:
        is_cover = ".cover." in name or status in ("SATISFIED", "UNSATISFIABLE")
        if is_cover:
            cov_tot += 1
            if status == "SATISFIED":
                cov_sat += 1
            else:
                unsat.append((name, desc, loc, status))
            continue
        if "unwinding assertion" in desc or ".unwind." in name:
            if status != "SUCCESS":
                unwind_fail = True
            continue
        if only_tag is not None and only_tag in desc:
            tag_seen = True
            if status != "SUCCESS":
                tag_ok = False
                failed.append((name, desc, loc))
            continue
        if status == "FAILURE":
            failed.append((name, desc, loc))
        elif status == "UNDETERMINED":
            undetermined = True
    res.covers = (cov_sat, cov_tot)
    res.unsat_covers = unsat
    if "ran out of memory" in text or "std::bad_alloc" in text or "appears to have run out of memory" in text or "memory allocation of" in text:
        res.verdict = "OOM"
        res.note = "solver ran out of memory (never a pass)"
        return
    ok = "VERIFICATION:- SUCCESSFUL" in text
    bad = "VERIFICATION:- FAILED" in text
    if not ok and not bad:
        if "CBMC failed" in text or "Status: ERROR" in text or "std::bad_alloc" in text or "Out of memory" in text:
            res.verdict = "OOM" if ("bad_alloc" in text or "memory" in text.lower()) else "ERROR"
        else:
            res.verdict = "ERROR"
        res.note = "no verdict line in Kani output"
        return
    if unwind_fail:
        res.verdict = "UNWIND"
        res.note = "unwinding assertion failed: bound too small for the code"
        # real failures are still real, report them with priority
        real = [f for f in failed if "unwinding" not in f[1]]
        if only_tag is None and real:
            res.failed = real
            res.verdict = "FAIL"
        return
    if only_tag is not None:
        # expected panics of the callee are ignored; only the tagged check counts
        if not tag_seen:
            res.verdict = "ERROR"
            res.note = "tagged check %r not found in output" % only_tag
            return
        if not tag_ok:
            res.verdict = "FAIL"
            res.failed = [f for f in failed if only_tag in f[1]]
            return
        # every other failure must be an assertion/panic (expected), not UB
        others = [f for f in failed if only_tag not in f[1]]
        ub = [f for f in others if not re.search(r"\.assertion\.\d+$", f[0])]
        if ub:
            res.verdict = "FAIL"
            res.failed = ub
            return
        if undetermined and not others:
            res.verdict = "ERROR"
            res.note = "undetermined checks"
            return
        res.verdict = "VACUOUS" if unsat else "PASS"
        return
    if bad:
        if failed:
            res.verdict = "FAIL"
            res.failed = failed
        else:
            res.verdict = "ERROR"
            res.note = "FAILED without a failed property (see log)"
        return
    if unsat:
        res.verdict = "VACUOUS"
        res.note = "unreachable cover witness: " + "; ".join(u[1] for u in unsat[:4])
        return
    res.verdict = "PASS"


def run_query(cwd, harness, target_dir, log_path, cap_s, mem_gb=14, features=None,
              no_default_features=False, debug_assertions=True, unwind=None,
              cbmc_args=None, stubbing=False, only_tag=None, playback=False, extra=None):
    res = Result()
    res.log = log_path
    cmd = kani_cmd(harness, target_dir, features, no_default_features, unwind,
                   extra=extra, cbmc_args=cbmc_args, stubbing=stubbing, playback=playback)
    env = kani_env(debug_assertions)
    t0 = time.time()
    with open(log_path, "w") as lf:
        lf.write("# cmd: %s\n# cwd: %s\n# debug_assertions=%s\n" % (" ".join(cmd), cwd, debug_assertions))
        lf.flush()
        p = subprocess.Popen(cmd, cwd=cwd, env=env, stdout=lf, stderr=subprocess.STDOUT,
                             preexec_fn=_limits(mem_gb))
        RUNNING.add(p.pid)
        try:
            p.wait(timeout=cap_s)
            timed_out = False
        except subprocess.TimeoutExpired:
            timed_out = True
            try:
                os.killpg(p.pid, signal.SIGKILL)
            except ProcessLookupError:
                pass
            p.wait()
    RUNNING.discard(p.pid)
    res.wall_s = time.time() - t0
    with open(log_path, errors="replace") as lf:
        text = lf.read()
    if timed_out:
        res.verdict = "TIMEOUT"
        res.note = "cap %ds" % cap_s
        m = re.search(r"(\d+) variables, (\d+) clauses", text)
        if m:
            res.vars, res.clauses = int(m.group(1)), int(m.group(2))
        return res
    if "error: could not compile" in text or re.search(r"^error(\[E\d+\])?:", text, re.M):
        if "VERIFICATION:-" not in text:
            res.verdict = "ERROR"
            res.note = "build error"
            return res
    parse_log(text, res, only_tag=only_tag)
    if playback and res.verdict == "FAIL":
        blocks = re.findall(r"```\n(.*?)```", text, re.S)
        chosen = None
        for b in blocks:
            # the doc comment in front of the test may span several lines (multi-line assert
            # expressions) of which only the first carries `///`: cut it off and keep the test
            k = b.find("#[test]")
            if k < 0:
                continue
            hdr, b = b[:k], b[k:]
            m = re.search(r"Check for `(\w+)`: \"(.*)\"", hdr, re.S)
            kind, desc = (m.group(1), " ".join(m.group(2).split())) if m else ("", "")
            if kind == "cover" or not m:
                continue
            if only_tag is not None and only_tag not in desc:
                continue
            if only_tag is None and res.failed and not any(desc in " ".join(f[1].split()) or " ".join(f[1].split()) in desc
                                                           for f in res.failed):
                continue
            chosen = b
            break
        res.playback = chosen
    return res
