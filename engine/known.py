"""Known findings file (/verif/known_findings.txt).

Lines:
  fixed: property=<id> <commit> <what failed>          -- informational, suppresses nothing
  finding: property=<id> query=<query> check=<substring of failed check> :: <what fails>
A `finding` suppresses only a failure of exactly that query whose failed check
description contains the given substring; anything else is still a VIOLATION.
The file is never written at run time.
"""
import os
import re

from . import shadow


def load():
    out = {"fixed": [], "finding": []}
    p = os.path.join(shadow.VERIF, "known_findings.txt")
    if not os.path.exists(p):
        return out
    with open(p) as fh:
        for line in fh:
            line = line.strip()
            if not line or line.startswith("#"):
                continue
            if line.startswith("fixed:"):
                out["fixed"].append(line)
            elif line.startswith("finding:"):
                m = re.match(r"finding:\s+property=(\S+)\s+query=(\S+)\s+check=(.*?)\s+::\s+(.*)$", line)
                if m:
                    out["finding"].append(m.groups())
    return out


def match(kf, prop, q, res):
    for (p, query, check, what) in kf["finding"]:
        if p != prop or query != q.name:
            continue
        if res.failed and all(check in f[1] for f in res.failed):
            return what
    return None
