"""E2: SMT obligations generated from the MIR of real functions (see mir2smt.py)."""
import os
import time

from . import kani_run


def run_query(q, crate, log_path, cap, log):
    from . import mir2smt
    t0 = time.time()
    r = kani_run.Result()
    r.log = log_path
    try:
        mir2smt.run_obligation(q, crate, log_path, cap, r)
    except Exception as e:  # translator limits are inconclusive, never a pass
        r.verdict = "ERROR"
        r.note = "mir2smt: %s: %s" % (type(e).__name__, e)
    r.wall_s = time.time() - t0
    log("  [smt] %-44s %-8s %6.1fs%s" % (q.name, r.verdict, r.wall_s, ("  " + r.note) if r.note else ""))
    return r


def replay(q, r, crate, root, log):
    from . import mir2smt
    return mir2smt.replay(q, r, crate, root, log)


def replay_file(path, hdr, text, root, log):
    from . import mir2smt
    return mir2smt.replay_file(path, hdr, text, root, log)
