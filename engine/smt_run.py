"""E2: SMT obligations generated from the MIR of real functions (engine/mir2smt.py, run
under the tooling venv's python so that the z3 bindings are available)."""
import json
import os
import subprocess
import time

from . import kani_run, shadow, native


def run_query(q, crate, log_path, cap, log):
    t0 = time.time()
    r = kani_run.Result()
    r.log = log_path
    scratch = os.path.join(os.path.dirname(os.path.dirname(crate)), "smt-" + q.name)
    os.makedirs(scratch, exist_ok=True)
    cmd = ["python3-vt", os.path.join(shadow.VERIF, "engine", "mir2smt.py"), q.harness, crate, scratch, str(cap)]
    try:
        p = subprocess.run(cmd, stdout=subprocess.PIPE, stderr=subprocess.PIPE, text=True, timeout=cap * 40 + 120)
        with open(log_path, "w") as fh:
            fh.write("# cmd: %s\n" % " ".join(cmd))
            fh.write(p.stdout)
            fh.write("\n# stderr\n" + p.stderr[-4000:])
        out = json.loads(p.stdout.strip().splitlines()[-1])
        r.verdict = out["verdict"]
        r.note = out.get("note", "")
        qs = out.get("queries", [])
        r.checks_total = len(qs)
        r.solver_s = round(sum(x.get("z3_s", 0) + x.get("cvc5_s", 0) for x in qs), 1)
        # sat twins of the hypotheses are the vacuity witnesses
        wit = [x for x in qs if x["label"].endswith(".witness")]
        r.covers = (sum(1 for x in wit if x["z3"] == "sat"), len(wit))
        r.smt = out
        if out.get("cex"):
            r.failed = [("smt", json.dumps(out["cex"])[:300], q.harness)]
    except subprocess.TimeoutExpired:
        r.verdict = "TIMEOUT"
    except Exception as e:  # translator limits are inconclusive, never a pass
        r.verdict = "ERROR"
        r.note = "mir2smt: %s: %s" % (type(e).__name__, e)
    r.wall_s = time.time() - t0
    log("  [smt] %-46s %-8s %6.1fs%s" % (q.name, r.verdict, r.wall_s, ("  " + r.note) if r.note else ""))
    return r


def replay(q, r, crate, root, log):
    """Native confirmation of an SMT counterexample through the public API."""
    binary, out = native.build(root, crate)
    if binary is None:
        log("  native build failed: " + out[-300:])
        return False, None
    cex = (getattr(r, "smt", {}) or {}).get("cex") or {}
    if q.harness == "roll_step":
        # feed the window in age order followed by the new byte
        idx = 0
        for lab in (r.note or "").split():
            pass
        import re
        m = re.search(r"idx(\d)", r.note or "")
        idx = int(m.group(1)) if m else 0
        win = [int(cex.get("w%d" % i, "0")) for i in range(7)]
        age = [win[(idx + k) % 7] for k in range(7)]
        ch = int(cex.get("ch", "0"))
        rc, txt = native.run(binary, ["roll"] + [str(b) for b in age + [ch]])
        rc2, txt2 = native.run(binary, ["roll"] + [str(b) for b in age])
        ok = rc != 0 or rc2 != 0
        detail = txt + txt2
    elif q.harness == "lcs_step":
        rc, txt = native.run(binary, ["ed-search", "5", "3"], timeout=1200)
        ok = rc != 0
        detail = txt
    else:
        return False, None
    log("  native confirmation: " + detail.strip().replace("\n", " | ")[:300])
    if not ok:
        return False, None
    outdir = os.path.join(shadow.VERIF, "replays", q.prop)
    os.makedirs(outdir, exist_ok=True)
    path = os.path.join(outdir, q.name + ".txt")
    with open(path, "w") as fh:
        fh.write("// verif-replay: engine=smt\n// verif-replay: property=%s\n// verif-replay: query=%s\n"
                 "// verif-replay: obligation=%s\n" % (q.prop, q.name, q.harness))
        fh.write("// solver counterexample: %s\n// native confirmation:\n%s\n" % (json.dumps(cex), detail))
    return True, path


def replay_file(path, hdr, text, root, log):
    from . import tables, queries
    crate = shadow.make_shadow(os.path.join(root, "src"))
    q = next((x for x in queries.ALL if x.name == hdr.get("query")), None)
    if q is None:
        log("unknown query in replay file")
        return 2
    r = run_query(q, crate, os.path.join(root, "replay-smt.log"), 300, log)
    if r.verdict == "FAIL":
        ok, p = replay(q, r, crate, root, log)
        if ok:
            log("VIOLATION property=%s replay=%s" % (q.prop, path))
            return 1
    log("obligation %s: %s on the current tree" % (q.harness, r.verdict))
    return 0 if r.verdict == "PASS" else 2
