#!/usr/bin/env python3-vt
"""E2: symbolic execution of rustc MIR (-Zunpretty=mir) into SMT, decided by z3 and cvc5.

Only a small, explicitly whitelisted MIR subset is interpreted (integer/bool locals,
checked-arithmetic tuples, IntToInt casts, struct fields and fixed arrays behind one
reference, a few core integer methods).  Anything else raises Unsupported and the query
is reported INCONCLUSIVE -- never as a pass.

The MIR text is regenerated from the shadow copy of /repo on every run, so the
expressions in the obligations below (`v' = ...`, the rolling-hash update) are taken from
the compiler's view of the current source, not typed in by hand.

Run as:  python3-vt engine/mir2smt.py <obligation> <crate dir> <scratch dir> [cap seconds]
Prints one JSON object.
"""
import json
import os
import re
import subprocess
import sys
import time

import z3


class Unsupported(Exception):
    pass


# --------------------------------------------------------------------------------------
# MIR text -> functions
# --------------------------------------------------------------------------------------

WIDTH = {"u8": 8, "u16": 16, "u32": 32, "u64": 64, "usize": 64, "i8": 8, "i16": 16, "i32": 32,
         "i64": 64, "isize": 64, "bool": 1}


def dump_mir(crate, scratch, features=None):
    out = os.path.join(scratch, "mir-%s.txt" % ("-".join(features) if features else "default"))
    if os.path.exists(out):
        return open(out).read()
    env = dict(os.environ)
    env["CARGO_NET_OFFLINE"] = "true"
    env["CARGO_TARGET_DIR"] = os.path.join(scratch, "t-mir")
    env.pop("RUSTFLAGS", None)
    # rustc re-prints MIR only when it actually recompiles
    lib = os.path.join(crate, "src", "lib.rs")
    os.utime(lib, None)
    cmd = ["cargo", "+nightly", "rustc", "--offline", "--lib"]
    if features:
        cmd += ["--features", ",".join(features)]
    cmd += ["--", "-Zunpretty=mir", "-C", "debug-assertions=off", "-C", "overflow-checks=on"]
    p = subprocess.run(cmd, cwd=crate, env=env, stdout=subprocess.PIPE, stderr=subprocess.PIPE, text=True)
    if p.returncode != 0 or len(p.stdout) < 1000:
        raise Unsupported("MIR dump failed: " + p.stderr[-400:])
    with open(out, "w") as fh:
        fh.write(p.stdout)
    return p.stdout


class Fn:
    def __init__(self, name, sig):
        self.name = name
        self.sig = sig
        self.types = {}
        self.blocks = {}


def parse_mir(text):
    fns = {}
    consts = {}
    for m in re.finditer(r"^const (\S.*?): (\w+) = const (-?\d+)_(\w+);", text, re.M):
        consts[m.group(1)] = (int(m.group(3)), m.group(4))
    cur = None
    bb = None
    for line in text.splitlines():
        m = re.match(r"^fn (.*?)\((.*)\) -> (.*) \{$", line)
        if m:
            cur = Fn(m.group(1), line)
            fns.setdefault(cur.name, []).append(cur)
            for am in re.finditer(r"(_\d+): ([^,)]+(?:\[[^\]]*\])?)", m.group(2)):
                cur.types[am.group(1)] = am.group(2).strip()
            cur.types["_0"] = m.group(3).strip()
            bb = None
            continue
        if cur is None:
            continue
        if line == "}":
            cur = None
            continue
        m = re.match(r"^\s+let (?:mut )?(_\d+): (.*);$", line)
        if m:
            cur.types[m.group(1)] = m.group(2)
            continue
        m = re.match(r"^\s+(bb\d+)(?: \(cleanup\))?: \{$", line)
        if m:
            bb = m.group(1)
            cur.blocks[bb] = []
            continue
        if bb and line.strip() == "}":
            bb = None
            continue
        if bb:
            s = line.strip()
            if s and not s.startswith("//"):
                cur.blocks[bb].append(s)
    return fns, consts


def find_fn(fns, pattern):
    hits = [f for name, lst in fns.items() if re.search(pattern, name) for f in lst]
    if len(hits) != 1:
        # identical duplicates (several codegen units print the same body) are fine
        bodies = {json.dumps(f.blocks, sort_keys=True) for f in hits}
        if len(bodies) != 1:
            raise Unsupported("function %r: %d candidates" % (pattern, len(hits)))
    return hits[0]


# --------------------------------------------------------------------------------------
# symbolic interpreter
# --------------------------------------------------------------------------------------

def bv(val, width):
    return z3.BitVecVal(val, width)


def to_bool(e):
    return e if z3.is_bool(e) else e == bv(1, 1)


def to_bv1(e):
    return z3.If(e, bv(1, 1), bv(0, 1)) if z3.is_bool(e) else e


class Interp:
    """Executes blocks of one function on a symbolic store.

    store: dict place-key -> z3 expr | python list (array) | tuple (checked-op pair)
    hooks: dict callee-regex -> fn(interp, args, dest_type) -> z3 expr
    """

    def __init__(self, fn, consts, hooks=None, fns=None, depth=0):
        self.fn = fn
        self.consts = consts
        self.hooks = hooks or {}
        self.fns = fns or ALL_FNS
        self.depth = depth
        self.obligations = []   # (path condition, must-hold condition, description)
        self.paths = []         # (path condition, store, stop block)

    # -- operands / places -----------------------------------------------------------
    def const(self, txt):
        m = re.match(r"^(-?\d+)_(\w+)$", txt)
        if m:
            return bv(int(m.group(1)), WIDTH[m.group(2)])
        if txt in ("true", "false"):
            return z3.BoolVal(txt == "true")
        # named constant: try suffix match on the const table
        last = txt.split("::")[-1]
        cands = {(v, t) for k, (v, t) in self.consts.items() if k.split("::")[-1] == last}
        if len(cands) == 1:
            v, t = cands.pop()
            return bv(v, WIDTH[t])
        raise Unsupported("constant " + txt)

    def place_key(self, p, store):
        p = p.strip()
        m = re.match(r"^\(\(\*(_\d+)\)\.(\d+): [^)]*\)\[(_\d+)\]$", p)
        if m:
            return ("elem", "(*%s).%s" % (m.group(1), m.group(2)), self.read("_" + m.group(3)[1:], store))
        m = re.match(r"^\(\*(_\d+)\)\[(_\d+)\]$", p)
        if m:
            return ("elem", "(*%s)" % m.group(1), self.read(m.group(2), store))
        m = re.match(r"^\(\(\*(_\d+)\)\.(\d+): [^)]*\)$", p)
        if m:
            return ("key", "(*%s).%s" % (m.group(1), m.group(2)))
        m = re.match(r"^\((_\d+)\.(\d+): [^)]*\)$", p)
        if m:
            return ("tuple", m.group(1), int(m.group(2)))
        m = re.match(r"^\(\*(_\d+)\)$", p)
        if m:
            return ("key", "(*%s)" % m.group(1))
        if re.match(r"^_\d+$", p):
            return ("key", p)
        raise Unsupported("place " + p)

    def read(self, p, store):
        k = self.place_key(p, store)
        if k[0] == "key":
            if k[1] not in store:
                raise Unsupported("read of undefined place " + k[1])
            return store[k[1]]
        if k[0] == "tuple":
            return store[k[1]][k[2]]
        if k[0] == "elem":
            arr = store.get(k[1])
            if arr is None:
                raise Unsupported("read of undefined array " + k[1])
            idx = k[2]
            if callable(arr):
                return arr(idx)
            if z3.is_bv_value(idx):
                return arr[idx.as_long()]
            e = arr[-1]
            for i in range(len(arr) - 2, -1, -1):
                e = z3.If(idx == bv(i, idx.size()), arr[i], e)
            return e
        raise Unsupported("read " + p)

    def write(self, p, val, store):
        k = self.place_key(p, store)
        if k[0] == "key":
            store[k[1]] = val
        elif k[0] == "elem":
            arr = list(store[k[1]])
            idx = k[2]
            if z3.is_bv_value(idx):
                arr[idx.as_long()] = val
            else:
                arr = [z3.If(idx == bv(i, idx.size()), val, arr[i]) for i in range(len(arr))]
            store[k[1]] = arr
        else:
            raise Unsupported("write " + p)

    def operand(self, o, store):
        o = o.strip()
        m = re.match(r"^(?:copy|move) (.*)$", o)
        if m:
            return self.read(m.group(1), store)
        m = re.match(r"^const (.*)$", o)
        if m:
            return self.const(m.group(1))
        raise Unsupported("operand " + o)

    def cast(self, e, ty):
        w = WIDTH.get(ty)
        if w is None:
            raise Unsupported("cast to " + ty)
        if z3.is_bool(e):
            e = to_bv1(e)
        if e.size() == w:
            return e
        if e.size() > w:
            return z3.Extract(w - 1, 0, e)
        return z3.ZeroExt(w - e.size(), e)   # only unsigned sources occur in the subset

    def rvalue(self, r, store, dest_ty):
        r = r.strip()
        m = re.match(r"^(.*) as (\w+) \(IntToInt\)$", r)
        if m:
            return self.cast(self.operand(m.group(1), store), m.group(2))
        m = re.match(r"^(\w+)\((.*)\)$", r)
        if m and m.group(1) in BINOPS:
            a, b = split_args(m.group(2))
            x, y = self.operand(a, store), self.operand(b, store)
            return BINOPS[m.group(1)](x, y)
        if m and m.group(1) == "Not":
            x = self.operand(m.group(2), store)
            return z3.Not(x) if z3.is_bool(x) else ~x
        if m and m.group(1) in ("AddWithOverflow", "SubWithOverflow", "MulWithOverflow"):
            a, b = split_args(m.group(2))
            x, y = self.operand(a, store), self.operand(b, store)
            w = x.size()
            xe, ye = z3.ZeroExt(w, x), z3.ZeroExt(w, y)
            if m.group(1) == "AddWithOverflow":
                full = xe + ye
                ov = z3.Extract(2 * w - 1, w, full) != bv(0, w)
                res = x + y
            elif m.group(1) == "SubWithOverflow":
                ov = z3.ULT(x, y)
                res = x - y
            else:
                full = xe * ye
                ov = z3.Extract(2 * w - 1, w, full) != bv(0, w)
                res = x * y
            return (res, ov)
        return self.operand(r, store)

    # -- execution -------------------------------------------------------------------
    def run(self, start, store, stop, pc=None, depth=0):
        pc = pc if pc is not None else z3.BoolVal(True)
        bb = start
        store = dict(store)
        steps = 0
        while True:
            steps += 1
            if steps > 400:
                raise Unsupported("path too long (loop without a cut point?)")
            if bb in stop:
                self.paths.append((pc, store, bb))
                return
            stmts = self.fn.blocks.get(bb)
            if stmts is None:
                raise Unsupported("no block " + bb)
            self.cur_pc = pc
            for s in stmts[:-1]:
                self.stmt(s, store)
            bb_next = self.term(stmts[-1], store, pc, stop)
            if bb_next is None:
                return
            if isinstance(bb_next, list):
                for (cond, tgt) in bb_next:
                    npc = z3.simplify(z3.And(pc, cond))
                    if z3.is_false(npc):
                        continue   # dead edge under the concrete parts of the state
                    self.run(tgt, store, stop, npc, depth + 1)
                return
            bb = bb_next

    def stmt(self, s, store):
        if s.startswith("StorageLive") or s.startswith("StorageDead") or s.startswith("nop") or s.startswith("FakeRead") \
                or s.startswith("PlaceMention") or s.startswith("Retag") or s.startswith("debug "):
            return
        m = re.match(r"^(.*?) = (.*);$", s)
        if not m:
            raise Unsupported("statement " + s)
        dest, rv = m.group(1), m.group(2)
        ty = self.fn.types.get(dest.strip())
        if rv.startswith("&") or rv.startswith("no_retag"):
            # references are tracked by name only (one level)
            mm = re.match(r"^(?:&mut |&|no_retag copy |no_retag move )(.*)$", rv)
            store[dest.strip()] = ("ref", mm.group(1).strip())
            return
        val = self.rvalue(rv, store, ty)
        self.write(dest, val, store)

    def term(self, t, store, pc, stop):
        if t == "return;":
            self.paths.append((pc, store, "return"))
            return None
        if t == "unreachable;":
            return None
        m = re.match(r"^goto -> (bb\d+);$", t)
        if m:
            return m.group(1)
        m = re.match(r"^assert\((!?)(.*?), \"(.*?)\".*\) -> \[success: (bb\d+).*\];$", t)
        if m:
            c = to_bool(self.operand(m.group(2), store))
            if m.group(1) == "!":
                c = z3.Not(c)
            self.obligations.append((pc, c, "no panic %d: " % len(self.obligations) + m.group(3)[:60]))
            # continue on the success edge under the assumption that it holds
            return [(c, m.group(4))]
        m = re.match(r"^switchInt\((.*?)\) -> \[(.*)\];$", t)
        if m:
            v = self.operand(m.group(1), store)
            outs = []
            taken = []
            for part in m.group(2).split(", "):
                k, tgt = part.split(": ")
                if k == "otherwise":
                    cond = z3.And(*[z3.Not(c) for c in taken]) if taken else z3.BoolVal(True)
                else:
                    if z3.is_bool(v):
                        cond = v if int(k) != 0 else z3.Not(v)
                    else:
                        cond = v == bv(int(k), v.size())
                    taken.append(cond)
                outs.append((cond, tgt))
            return outs
        m = re.match(r"^(.*?) = (.*?)\((.*)\) -> \[return: (bb\d+).*\];$", t)
        if m:
            dest, callee, args, nxt = m.groups()
            argv = [self.operand(a, store) for a in split_args(args)] if args.strip() else []
            val = self.call(callee.strip(), argv, self.fn.types.get(dest.strip()))
            self.write(dest, val, store)
            return nxt
        raise Unsupported("terminator " + t)

    def call(self, callee, argv, dest_ty):
        for rx, fn in self.hooks.items():
            if re.search(rx, callee):
                return fn(self, argv, dest_ty)
        m = re.match(r"^core::num::<impl (\w+)>::(\w+)$", callee)
        if m:
            name = m.group(2)
            if name == "wrapping_add":
                return argv[0] + argv[1]
            if name == "wrapping_sub":
                return argv[0] - argv[1]
            if name == "wrapping_mul":
                return argv[0] * argv[1]
            if name == "count_zeros":
                x = argv[0]
                return sum((z3.ZeroExt(31, z3.Extract(i, i, ~x)) for i in range(x.size())), bv(0, 32))
            if name == "count_ones":
                x = argv[0]
                return sum((z3.ZeroExt(31, z3.Extract(i, i, x)) for i in range(x.size())), bv(0, 32))
        if re.search(r"(Ord>::min|cmp::min)(::<\w+>)?$", callee):
            return z3.If(z3.ULT(argv[0], argv[1]), argv[0], argv[1])
        if re.search(r"(Ord>::max|cmp::max)(::<\w+>)?$", callee):
            return z3.If(z3.UGT(argv[0], argv[1]), argv[0], argv[1])
        # a loop-free function of the crate itself: interpret its MIR (bounded depth)
        if self.depth < 4 and self.fns:
            name = callee.split("::<")[0]
            cands = [f for n, lst in self.fns.items() for f in lst
                     if n == name or n.endswith("::" + name.split("::")[-1]) and name.split("::")[-1] == n.split("::")[-1]]
            bodies = {json.dumps(f.blocks, sort_keys=True) for f in cands}
            if len(bodies) == 1:
                f = cands[0]
                sub = Interp(f, self.consts, self.hooks, self.fns, self.depth + 1)
                store = {"_%d" % (i + 1): a for i, a in enumerate(argv)}
                sub.run("bb0", store, stop=set())
                for (pc, c, desc) in sub.obligations:
                    self.obligations.append((z3.And(self.cur_pc, pc), c, desc + " [in %s]" % name.split("::")[-1]))
                rets = [(pc, st["_0"]) for (pc, st, w) in sub.paths if w == "return"]
                if not rets:
                    raise Unsupported("callee %s never returns" % callee)
                val = rets[-1][1]
                for (pc, v) in rets[:-1]:
                    val = z3.If(pc, v, val)
                return val
        raise Unsupported("call " + callee)


ALL_FNS = {}


def split_args(s):
    out, depth, cur = [], 0, ""
    for ch in s:
        if ch in "([":
            depth += 1
        elif ch in ")]":
            depth -= 1
        if ch == "," and depth == 0:
            out.append(cur.strip())
            cur = ""
        else:
            cur += ch
    if cur.strip():
        out.append(cur.strip())
    return out


BINOPS = {
    "Add": lambda a, b: a + b, "Sub": lambda a, b: a - b, "Mul": lambda a, b: a * b,
    "BitAnd": lambda a, b: a & b, "BitOr": lambda a, b: a | b, "BitXor": lambda a, b: a ^ b,
    "Shl": lambda a, b: a << (z3.ZeroExt(a.size() - b.size(), b) if b.size() < a.size() else z3.Extract(a.size() - 1, 0, b)),
    "Shr": lambda a, b: z3.LShR(a, (z3.ZeroExt(a.size() - b.size(), b) if b.size() < a.size() else z3.Extract(a.size() - 1, 0, b))),
    "Lt": lambda a, b: z3.ULT(a, b), "Le": lambda a, b: z3.ULE(a, b), "Gt": lambda a, b: z3.UGT(a, b),
    "Ge": lambda a, b: z3.UGE(a, b), "Eq": lambda a, b: a == b, "Ne": lambda a, b: a != b,
}


# --------------------------------------------------------------------------------------
# deciding
# --------------------------------------------------------------------------------------

def decide(assertions, cap, label, log, want="unsat"):
    """Returns (verdict, model-or-None, times).  `assertions` is a list of z3 Bool exprs whose
    conjunction must be UNSAT (negated obligation) -- or SAT for vacuity witnesses."""
    s = z3.Solver()
    s.set("timeout", int(cap * 1000))
    for a in assertions:
        s.add(a)
    t0 = time.time()
    r = s.check()
    tz = time.time() - t0
    model = s.model() if r == z3.sat else None
    # second solver
    smt2 = "(set-logic ALL)\n" + s.to_smt2()
    path = os.path.join(log["dir"], label + ".smt2")
    with open(path, "w") as fh:
        fh.write(smt2)
    t0 = time.time()
    cap2 = min(cap, 45)
    try:
        p = subprocess.run(["cvc5", "--lang", "smt2", "--tlimit=%d" % int(cap2 * 1000), path],
                           stdout=subprocess.PIPE, stderr=subprocess.STDOUT, text=True, timeout=cap2 + 10)
        out = p.stdout.strip().splitlines()
        r2 = out[0].strip() if out else "unknown"
        if any("(error" in l for l in out):
            r2 = "error"
    except subprocess.TimeoutExpired:
        r2 = "timeout"
    if r2 not in ("sat", "unsat"):
        # cvc5 gave no answer within its (shorter) cap: ask the other installed z3 (4.8.12 CLI;
        # the Python bindings are z3 5.1.0) for the second opinion instead
        try:
            p = subprocess.run(["/usr/bin/z3", "-T:%d" % int(cap), path], stdout=subprocess.PIPE,
                               stderr=subprocess.STDOUT, text=True, timeout=cap + 10)
            out = p.stdout.strip().splitlines()
            r3 = out[0].strip() if out else "unknown"
            if any("(error" in l for l in out):
                r3 = "error"
        except subprocess.TimeoutExpired:
            r3 = "timeout"
        r2 = ("z3-4.8.12:" + r3) if r3 in ("sat", "unsat") else "cvc5:%s,z3-4.8.12:%s" % (r2, r3)
    tc = time.time() - t0
    log["queries"].append({"label": label, "z3": str(r), "z3_s": round(tz, 2), "cvc5": r2, "cvc5_s": round(tc, 2)})
    return str(r), r2, model


class Ob:
    """Collects sub-queries of one obligation."""

    def __init__(self, scratch, cap):
        self.log = {"dir": scratch, "queries": []}
        self.cap = cap
        self.verdict = "PASS"
        self.note = ""
        self.cex = None

    def must_hold(self, label, hyps, concl, witness=True):
        """hyps => concl for all values: check hyps /\\ not concl unsat; and hyps sat (vacuity)."""
        r, r2, model = decide(list(hyps) + [z3.Not(concl)], self.cap, label, self.log)
        if r == "sat":
            self.verdict = "FAIL"
            self.note = "counterexample in " + label
            self.cex = {str(d): str(model[d]) for d in model.decls()}
            return False
        if r != "unsat":
            self.verdict = "TIMEOUT" if self.verdict == "PASS" else self.verdict
            self.note = label + ": z3 " + r
            return False
        if r2.endswith("sat") and not r2.endswith("unsat") or "error" in r2:
            self.verdict = "ERROR"
            self.note = label + ": solvers disagree / error (z3 unsat, second %s)" % r2
            return False
        if not r2.endswith("unsat"):
            self.note += " [%s: no second opinion (%s)]" % (label, r2)
        if not witness:
            return True
        # vacuity witness
        rv, _, _ = decide(list(hyps), self.cap, label + ".witness", self.log)
        if rv != "sat":
            self.verdict = "VACUOUS"
            self.note = label + ": hypotheses unsatisfiable"
            return False
        return True


# --------------------------------------------------------------------------------------
# obligations
# --------------------------------------------------------------------------------------

def ob_roll_step(fns, consts, ob):
    """C19: InvR (h1 = sum, h2 = position-weighted sum, h3 = shift-5-xor fold of the window in
    age order) is preserved by update_by_byte for every window index, the window shifts by
    one, no panic; value() is the wrapping sum; new() satisfies InvR."""
    f = find_fn(fns, r"rolling_hash::<impl.*>::update_by_byte$")
    fv = find_fn(fns, r"rolling_hash::<impl.*>::value$")

    def age(win, idx):
        return [win[(idx + k) % 7] for k in range(7)]

    def inv(h1, h2, h3, o):
        z = lambda b: z3.ZeroExt(24, b)
        s1 = sum((z(b) for b in o), bv(0, 32))
        s2 = sum(((k + 1) * z(o[k]) for k in range(7)), bv(0, 32))
        s3 = bv(0, 32)
        for b in o:
            s3 = (s3 << 5) ^ z(b)
        return z3.And(h1 == s1, h2 == s2, h3 == s3)

    for idx in range(7):
        h1, h2, h3 = z3.BitVecs("h1 h2 h3", 32)
        win = [z3.BitVec("w%d" % i, 8) for i in range(7)]
        ch = z3.BitVec("ch", 8)
        store = {"_1": ("ref", "self"), "_2": ch, "(*_1).0": bv(idx, 32), "(*_1).1": h1, "(*_1).2": h2,
                 "(*_1).3": h3, "(*_1).4": win}
        it = Interp(f, consts)
        it.run("bb0", store, stop=set())
        if not it.paths:
            raise Unsupported("no path reached return")
        pre = inv(h1, h2, h3, age(win, idx))
        for (pc, c, desc) in it.obligations:
            ob.must_hold("roll_step.idx%d.%s" % (idx, re.sub(r"\W+", "_", desc)[:30]), [pre, pc], c)
        posts = []
        for (pc, st, where) in it.paths:
            nidx = st["(*_1).0"]
            nwin = st["(*_1).4"]
            # new index is concrete after simplification
            ni = z3.simplify(nidx)
            if not z3.is_bv_value(ni):
                raise Unsupported("new index not concrete")
            ni = ni.as_long()
            new_age = age(nwin, ni)
            old_age = age(win, idx)
            shifted = z3.And(*[new_age[k] == old_age[k + 1] for k in range(6)] + [new_age[6] == ch])
            posts.append(z3.Implies(pc, z3.And(ni < 7, shifted, inv(st["(*_1).1"], st["(*_1).2"], st["(*_1).3"], new_age))))
        ob.must_hold("roll_step.idx%d.inv" % idx, [pre], z3.And(*posts))
    # value()
    h1, h2, h3 = z3.BitVecs("h1 h2 h3", 32)
    it = Interp(fv, consts)
    it.run("bb0", {"_1": ("ref", "self"), "(*_1).1": h1, "(*_1).2": h2, "(*_1).3": h3}, stop=set())
    vals = [z3.Implies(pc, st["_0"] == h1 + h2 + h3) for (pc, st, w) in it.paths]
    ob.must_hold("roll_value", [], z3.And(*vals))
    return ["RollingHash::update_by_byte (MIR)", "RollingHash::value (MIR)"]


def lcs_step_formula(V, E, V2, W=64):
    bit = lambda x, i: z3.Extract(i, i, x) == 1
    r0 = [z3.IntVal(0)]
    for i in range(W):
        r0.append(r0[-1] + z3.If(bit(V, i), 0, 1))
    r1 = [z3.IntVal(0)]
    for i in range(W):
        a = r0[i + 1]
        b = r1[i]
        r1.append(z3.If(bit(E, i), r0[i] + 1, z3.If(a > b, a, b)))
    return z3.And(*[(z3.Not(bit(V2, i))) == (r1[i + 1] - r1[i] == 1) for i in range(W)])


def ob_lcs_step(fns, consts, ob):
    """C08: the loop body of edit_distance_internal, taken from the MIR at its cut point,
    advances the bit-vector encoding of an LCS DP row exactly as the textbook recurrence
    does (64-bit width, any v, any match mask e); entry v0 = !0 encodes the zero row; the
    exit expression is len + |other| - 2 * count_zeros(v) without overflow."""
    f = find_fn(fns, r"BlockHashPositionArrayImplInternal::edit_distance_internal$")
    # locate the loop: header = target of the back edge (goto from a later block)
    header = None
    for bb, stmts in f.blocks.items():
        m = re.match(r"^goto -> (bb\d+);$", stmts[-1])
        if m and int(m.group(1)[2:]) < int(bb[2:]):
            header = m.group(1)
            back = bb
    if header is None:
        raise Unsupported("no loop found")
    # body entry: the block that reads the representation (contains `(*_4)[`)
    body = [bb for bb, st in f.blocks.items() if any(re.search(r"= copy \(\*_\d+\)\[_\d+\];", s) for s in st)]
    if len(body) != 1:
        raise Unsupported("loop body entry not unique")
    body = body[0]
    stmts = f.blocks[body]
    read = [s for s in stmts if re.search(r"= copy \(\*_\d+\)\[_\d+\];", s)][0]
    mm = re.match(r"^(_\d+) = copy \(\*(_\d+)\)\[(_\d+)\];$", read)
    e_local, rep_local, idx_local = mm.groups()
    # the accumulator is the local assigned in the back-edge block
    acc = re.match(r"^(_\d+) = ", f.blocks[back][0]).group(1)
    V = z3.BitVec("V", 64)
    E = z3.BitVec("E", 64)
    store = {acc: V, idx_local: z3.BitVec("ch", 64), "(*%s)" % rep_local: (lambda i: E)}
    it = Interp(f, consts)
    it.run(body, store, stop={header})
    if len(it.paths) != 1:
        raise Unsupported("loop body has %d paths" % len(it.paths))
    pc, st, _ = it.paths[0]
    V2 = st[acc]
    for (p, c, desc) in it.obligations:
        ob.must_hold("lcs_body." + re.sub(r"\W+", "_", desc)[:30], [p], c)
    ob.must_hold("lcs_step_w64", [], lcs_step_formula(V, E, V2, 64))
    # entry: the accumulator starts as all ones (zero row)
    init = None
    for bb, sts in f.blocks.items():
        for s in sts:
            m = re.match(r"^%s = (.*);$" % re.escape(acc), s)
            if m and bb != back:
                init = m.group(1)
    it0 = Interp(f, consts)
    v0 = it0.rvalue(init, {}, "u64")
    ob.must_hold("lcs_entry", [], v0 == bv(2 ** 64 - 1, 64))
    # exit: from the block reached when the iterator is exhausted to return
    exit_bb = [bb for bb, sts in f.blocks.items() if any("count_zeros" in s for s in sts)]
    if len(exit_bb) != 1:
        raise Unsupported("exit block not unique")
    ln = z3.BitVec("len", 8)
    olen = z3.BitVec("olen", 64)
    ite = Interp(f, consts, hooks={})
    st0 = {acc: V, "_3": ln, "_2": ("slice", "other")}
    # PtrMetadata(copy _2) -> olen
    ite.rvalue_orig = ite.rvalue

    def rv(r, store, ty):
        if r.startswith("PtrMetadata("):
            return olen
        return ite.rvalue_orig(r, store, ty)
    ite.rvalue = rv
    ite.run(exit_bb[0], st0, stop=set())
    # invariant at exit: zeros(v) = LCS <= min(len, olen) and both <= 64
    zeros = sum((z3.ZeroExt(31, z3.Extract(i, i, ~V)) for i in range(64)), bv(0, 32))
    hyp = [z3.ULE(ln, 64), z3.ULE(olen, 64), z3.ULE(zeros, z3.ZeroExt(24, ln)), z3.ULE(z3.ZeroExt(32, zeros), olen)]
    for (p, c, desc) in ite.obligations:
        ob.must_hold("lcs_exit." + re.sub(r"\W+", "_", desc)[:30], hyp + [p], c)
    outs = []
    for (p, st, w) in ite.paths:
        outs.append(z3.Implies(p, st["_0"] == z3.ZeroExt(24, ln) + z3.Extract(31, 0, olen) - 2 * zeros))
    ob.must_hold("lcs_exit_value", hyp, z3.And(*outs))
    return ["BlockHashPositionArrayImplInternal::edit_distance_internal (MIR: loop body at its cut point, entry, exit)"]


def ob_pa_init_step(fns, consts, ob):
    """C17: the loop body of init_from_partial ORs exactly bit i into the mask of symbol ch and
    leaves every other mask untouched (any masks, any i < 64, any symbol < 64) -- which is the
    recurrence mask(s[..i+1], c) = mask(s[..i], c) | (s[i] == c) << i of the reference masks,
    so a position array built from zeroed masks represents exactly its string, for strings of
    any length up to 64."""
    f = find_fn(fns, r"BlockHashPositionArrayImplMutInternal::init_from_partial$")
    body = [bb for bb, st in f.blocks.items() if any(re.search(r"^\(\*_\d+\)\[_\d+\] = BitOr\(", s) for s in st)]
    if len(body) != 1:
        raise Unsupported("write block not unique")
    wr = [s for s in f.blocks[body[0]] if re.search(r"^\(\*_\d+\)\[_\d+\] = BitOr\(", s)][0]
    mm = re.match(r"^\(\*(_\d+)\)\[(_\d+)\] = BitOr\(copy \(\*_\d+\)\[_\d+\], move (_\d+)\);$", wr)
    rep_local, idx_local, bit_local = mm.groups()
    # the block that computes the bit (Shl(const 1_u64, copy i)) and the index (ch as usize)
    shl_bb = [bb for bb, st in f.blocks.items() if any(re.search(r"= Shl\(const 1_u64, copy (_\d+)\);", s) for s in st)]
    if len(shl_bb) != 1:
        raise Unsupported("shift block not unique")
    sts = f.blocks[shl_bb[0]]
    i_local = re.search(r"= Shl\(const 1_u64, copy (_\d+)\);", [s for s in sts if "Shl(" in s][0]).group(1)
    ch_local = re.search(r"^%s = copy (_\d+) as usize \(IntToInt\);" % re.escape(idx_local), [s for s in sts if s.startswith(idx_local + " =")][0]).group(1)
    header = None
    for bb, stmts in f.blocks.items():
        m = re.match(r"^goto -> (bb\d+);$", stmts[-1])
        if m and int(m.group(1)[2:]) < int(bb[2:]):
            header = m.group(1)
    i = z3.BitVec("i", 64)
    ch = z3.BitVec("ch", 8)
    rep = [z3.BitVec("r%d" % k, 64) for k in range(64)]
    it = Interp(f, consts)
    it.run(shl_bb[0], {i_local: i, ch_local: ch, "(*%s)" % rep_local: rep}, stop={header})
    hyp = [z3.ULT(i, 64), z3.ULT(ch, 64)]
    for (p, c, desc) in it.obligations:
        ob.must_hold("pa_init." + re.sub(r"\W+", "_", desc)[:30], hyp + [p], c)
    if len(it.paths) != 1:
        raise Unsupported("loop body has %d paths" % len(it.paths))
    pc, st, _ = it.paths[0]
    rep2 = st["(*%s)" % rep_local]
    want = [z3.If(ch == k, rep[k] | (z3.BitVecVal(1, 64) << i), rep[k]) for k in range(64)]
    for k in range(64):
        ob.must_hold("pa_init_step.mask%d" % k, hyp, rep2[k] == want[k], witness=(k == 0))
    return ["BlockHashPositionArrayImplMutInternal::init_from_partial (MIR: loop body)"]


OBLIGATIONS = {"roll_step": ob_roll_step, "lcs_step": ob_lcs_step, "pa_init_step": ob_pa_init_step}


def main():
    name, crate, scratch = sys.argv[1], sys.argv[2], sys.argv[3]
    cap = float(sys.argv[4]) if len(sys.argv) > 4 else 120
    out = {"verdict": "ERROR", "note": "", "queries": [], "enc": []}
    t0 = time.time()
    try:
        text = dump_mir(crate, scratch)
        fns, consts = parse_mir(text)
        ALL_FNS.update(fns)
        ob = Ob(scratch, cap)
        enc = OBLIGATIONS[name](fns, consts, ob)
        out.update({"verdict": ob.verdict, "note": ob.note, "queries": ob.log["queries"], "enc": enc, "cex": ob.cex})
    except Unsupported as e:
        out["verdict"] = "ERROR"
        out["note"] = "unsupported MIR construct: %s" % e
    out["wall_s"] = round(time.time() - t0, 1)
    print(json.dumps(out))


if __name__ == "__main__":
    main()
