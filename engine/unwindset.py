"""Per-loop unwinding bounds.

`#[kani::unwind(n)]` applies to every loop; nested data-dependent loops then
cost n^2.  For queries that carry an `unwindset` rule list, the goto binary is
produced first (`cargo kani --only-codegen --keep-temps`), its loops are listed
with `cbmc --show-loops`, and each loop is mapped to a bound by the first rule
whose regex matches "<demangled function> <file>:<line>".  Loops without a
matching rule get the query's default unwind.  Unwinding assertions stay on.
"""
import glob
import os
import re
import subprocess

from . import kani_run
from .queries import CONFIGS

LOOP_RE = re.compile(r"^Loop (\S+):\n\s+file (\S+) line (\d+)(?: column \d+)? function (.*)$", re.M)


def discover(crate, q, target_dir, log_path):
    feats, nodef, dbg = CONFIGS[q.cfg]
    cmd = kani_run.kani_cmd(q.harness, target_dir, feats, nodef, None,
                            extra=["--only-codegen", "--keep-temps"], stubbing=q.stubbing)
    env = kani_run.kani_env(dbg)
    with open(log_path, "w") as lf:
        p = subprocess.run(cmd, cwd=crate, env=env, stdout=lf, stderr=subprocess.STDOUT)
    if p.returncode != 0:
        return None
    short = q.harness.split("::")[-1]
    cands = [f for f in glob.glob(os.path.join(target_dir, "kani", "**", "*.out"), recursive=True)
             if short in os.path.basename(f)]
    if not cands:
        return None
    cands.sort(key=os.path.getmtime)
    out = subprocess.run(["cbmc", "--show-loops", cands[-1]], stdout=subprocess.PIPE,
                         stderr=subprocess.STDOUT, text=True).stdout
    with open(log_path, "a") as lf:
        lf.write(out)
    parts = []
    # rules of the form "@label" name a loop label directly (library models that
    # are linked only inside CBMC, e.g. "@memcmp.0")
    for rx, bound in q.unwindset:
        if rx.startswith("@"):
            parts.append("%s:%d" % (rx[1:], bound))
    for label, f, line, func in LOOP_RE.findall(out):
        key = "%s %s:%s" % (func, f, line)
        for rx, bound in q.unwindset:
            if rx.startswith("@"):
                continue
            if re.search(rx, key):
                parts.append("%s:%d" % (label, bound))
                break
    return ",".join(parts)
