"""Regenerates /verif/MANIFEST.json from the query tables (run: python3 -m engine.manifest)."""
import json
import os

from . import tables, queries, shadow

BASELINE = ("cd /repo && cargo nextest run --workspace --no-fail-fast --test-threads 8 --offline "
            "|| cargo test --workspace --no-fail-fast --offline")

LEVEL_TEXT = {
}

NOT_APPLICABLE = {
}

PENDING = "check not yet built in this session (planned in DESIGN.md section 6)"


def build():
    props = ["C%02d" % i for i in range(1, 21)]
    checks = []
    na = []
    ready_file = os.path.join(shadow.VERIF, "ready.txt")
    ready = set(open(ready_file).read().split()) if os.path.exists(ready_file) else set()
    for p in props:
        has = any(q.prop == p for q in queries.ALL)
        meta = tables.PROP_META.get(p, {})
        if has and p not in ready:
            na.append({"property_id": p, "reason": "queries are built (see engine/tables.py) but the quick tier has not "
                       "yet been calibrated to pass reliably within its time budget on the unchanged tree; not claimed "
                       "until it does"})
            continue
        if not has or meta.get("unclaimed"):
            na.append({"property_id": p, "reason": NOT_APPLICABLE.get(p, meta.get("unclaimed", PENDING))})
            continue
        checks.append({
            "property_id": p,
            "quick_cmd": "./check %s --tier quick" % p,
            "thorough_cmd": "./check %s --tier thorough" % p,
            "evidence_file": "/verif/evidence/%s.json" % p,
            "replay_cmd_template": "./check %s --replay {path}" % p,
            "engine": meta.get("engine", "kani-cbmc"),
            "level_claimed": {
                "category": "model_checking",
                "text": meta.get("level_text", meta.get("technique", "")),
                "design_ref": "DESIGN.md section 6, " + p,
            },
            "level_note": meta.get("level_note",
                                   "Trusted: rustc + Kani codegen, CBMC/CaDiCaL (and z3/cvc5 for SMT queries), the "
                                   "reference models in harness/spec, the stated bounds; anything outside the "
                                   "per-query bounds listed in the evidence file is not claimed."),
            "technique": meta.get("technique", ""),
        })
    man = {
        "version": 1,
        "setup_cmd": "./setup",
        "hooks": {
            "guard": "cfg(kani) (set only by cargo-kani; no source changes in /repo)",
            "enable": "checks rsync /repo's working tree to a scratch directory and overwrite only the "
                      "#![cfg(test)] module slots (src/**/tests.rs, test_utils.rs) of the copy with harness "
                      "modules that are #![cfg(kani)]; /repo itself carries no hooks",
            "baseline_off_cmd": BASELINE,
            "source_commits": [],
            "add_only": True,
        },
        "engines": [
            {"name": "kani-cbmc", "path": "/verif/engine/kani_run.py",
             "serves_properties": sorted({q.prop for q in queries.ALL if q.engine == "kani"}),
             "kind_free_text": "Kani 0.68 / CBMC 6.11 (CaDiCaL) bounded model checking of #[kani::proof] harnesses "
                               "compiled together with the real crate sources"},
            {"name": "mir2smt", "path": "/verif/engine/mir2smt.py",
             "serves_properties": sorted({q.prop for q in queries.ALL if q.engine == "smt"}),
             "kind_free_text": "symbolic execution of rustc MIR (-Zunpretty=mir) of real functions into SMT-LIB2, "
                               "decided by z3 and cross-checked with cvc5"},
        ],
        "checks": checks,
        "not_applicable": na,
        "notes": "Solver-based checking of the real code; see DESIGN.md.  Exit codes of ./check: 0 held within the "
                 "stated bounds, 1 VIOLATION (replayed natively), 2 inconclusive (timeout/encoding suspect).",
    }
    return man


def main():
    man = build()
    with open(os.path.join(shadow.VERIF, "MANIFEST.json"), "w") as fh:
        json.dump(man, fh, indent=1)
    print("claimed:", [c["property_id"] for c in man["checks"]])
    print("not applicable:", [c["property_id"] for c in man["not_applicable"]])


if __name__ == "__main__":
    main()
