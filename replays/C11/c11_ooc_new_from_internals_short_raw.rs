// verif-replay: property=C11
// verif-replay: query=c11_ooc_new_from_internals_short_raw
// verif-replay: module=src/internals/hash/tests.rs
// verif-replay: cfg=release
// verif-replay: tag=VERIF_TAG
// failed check(s): VERIF_TAG returned_implies_valid
// native replay: dev FAILS (reproduced), release did not run
// re-run: /verif/check C11 --replay /verif/replays/C11/c11_ooc_new_from_internals_short_raw.rs
/// Test generated for harness `internals::hash::tests::c11_ooc_new_from_internals_short_raw` 
///
/// Check for `assertion`: "VERIF_TAG returned_implies_valid"

#[test]
fn kani_concrete_playback_c11_ooc_new_from_internals_short_raw_13854663020759911526() {
    let concrete_vals: Vec<Vec<u8>> = vec![
        // 12582912
        vec![0, 0, 192, 0],
        // 0
        vec![0],
        // 0
        vec![0],
        // 0
        vec![0],
        // 0
        vec![0],
        // 0
        vec![0],
        // 0
        vec![0],
        // 63
        vec![63],
        // 63
        vec![63],
        // 63
        vec![63],
        // 63
        vec![63],
        // 63
        vec![63],
        // 127
        vec![127],
        // 6ul
        vec![6, 0, 0, 0, 0, 0, 0, 0],
        // 6ul
        vec![6, 0, 0, 0, 0, 0, 0, 0],
    ];
    kani::concrete_playback_run(concrete_vals, c11_ooc_new_from_internals_short_raw);
}
