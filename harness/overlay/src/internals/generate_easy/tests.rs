#![cfg(kani)]
//! C03 / C12: hash_buf == generator fed in one call with the buffer length as the hint.
use super::*;

/// hash_buf(b) is exactly: new(); set_fixed_input_size(len); update(b); finalize().
/// (That this sequence yields the pure-CTPH digest is what the inductive generator queries
/// establish; here the wiring of the one-shot function is checked: buffer of symbolic
/// length <= 6, concrete content -- the wiring does not depend on the content.)
#[kani::proof]
#[kani::unwind(66)]
fn c03_hash_buf_wiring_l6() {
    let buf: [u8; 6] = [0x61, 0x07, 0xf3, 0x20, 0x99, 0x42];
    let n: usize = kani::any();
    kani::assume(n <= 6);
    let r = hash_buf(&buf[..n]);
    let mut g = Generator::new();
    assert!(g.set_fixed_input_size(n as u64).is_ok());
    g.update(&buf[..n]);
    assert!(g.input_size() == n as u64);
    let e = g.finalize();
    assert!(r.is_ok() && e.is_ok());
    let (a, b) = (r.unwrap(), e.unwrap());
    assert!(a.full_eq(&b));
    assert!(a.log_block_size() == 0);
    assert!(a.block_hash_1_len() == n);
    kani::cover!(n == 6);
    kani::cover!(n == 0 && a.block_hash_1_len() == 0);
}
