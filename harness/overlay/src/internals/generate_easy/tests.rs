#![cfg(kani)]
//! C03 / C12: hash_buf == "new generator; declare the buffer length; update(buffer); finalize".
//!
//! The generator's methods are replaced by a recording model (Kani stubbing): what is decided
//! is the wiring of the one-shot function for every buffer of up to 6 bytes -- it declares
//! exactly the buffer length, feeds exactly the buffer in one call and returns what finalize
//! returns.  That this call sequence yields the pure-CTPH hash is C01 / C03 / C12.
use super::*;
use core::sync::atomic::{AtomicU8, AtomicUsize, Ordering};

const Z: AtomicU8 = AtomicU8::new(0);
static LOG: [AtomicU8; 8] = [Z; 8];
static LOG_N: AtomicUsize = AtomicUsize::new(0);
static UPDATES: AtomicUsize = AtomicUsize::new(0);
static HINT: AtomicUsize = AtomicUsize::new(usize::MAX);
static HINT_BEFORE_DATA: AtomicUsize = AtomicUsize::new(0);

fn stub_hint(_g: &mut Generator, size: usize) -> Result<(), GeneratorError> {
    HINT.store(size, Ordering::Relaxed);
    HINT_BEFORE_DATA.store(if UPDATES.load(Ordering::Relaxed) == 0 { 1 } else { 0 }, Ordering::Relaxed);
    Ok(())
}

fn stub_update<'a>(g: &'a mut Generator, buffer: &[u8]) -> &'a mut Generator {
    UPDATES.store(UPDATES.load(Ordering::Relaxed) + 1, Ordering::Relaxed);
    let mut i = 0;
    while i < buffer.len() {
        let n = LOG_N.load(Ordering::Relaxed);
        if n < 8 {
            LOG[n].store(buffer[i], Ordering::Relaxed);
        }
        LOG_N.store(n + 1, Ordering::Relaxed);
        i += 1;
    }
    g
}

fn stub_finalize(_g: &Generator) -> Result<RawFuzzyHash, GeneratorError> {
    let n = LOG_N.load(Ordering::Relaxed);
    if HINT.load(Ordering::Relaxed) != n {
        return Err(GeneratorError::FixedSizeMismatch);
    }
    let mut bh = [0u8; 8];
    let mut i = 0;
    while i < 8 {
        if i < n {
            bh[i] = LOG[i].load(Ordering::Relaxed) & 0x3f;
        }
        i += 1;
    }
    Ok(RawFuzzyHash::new_from_internals_near_raw(0, &bh[..if n < 8 { n } else { 8 }], &[]))
}

#[kani::proof]
#[kani::unwind(66)]
#[kani::stub(crate::internals::generate::Generator::set_fixed_input_size_in_usize, stub_hint)]
#[kani::stub(crate::internals::generate::Generator::update, stub_update)]
#[kani::stub(crate::internals::generate::Generator::finalize, stub_finalize)]
fn c03_hash_buf_wiring_l6() {
    let buf: [u8; 6] = kani::any();
    let mut i = 0;
    while i < 6 {
        kani::assume(buf[i] < 64);
        i += 1;
    }
    let n: usize = kani::any();
    kani::assume(n <= 6);
    LOG_N.store(0, Ordering::Relaxed);
    UPDATES.store(0, Ordering::Relaxed);
    HINT.store(usize::MAX, Ordering::Relaxed);
    let r = hash_buf(&buf[..n]);
    assert!(HINT.load(Ordering::Relaxed) == n); // declares exactly the buffer length ...
    assert!(HINT_BEFORE_DATA.load(Ordering::Relaxed) == 1); // ... before feeding data
    assert!(LOG_N.load(Ordering::Relaxed) == n && UPDATES.load(Ordering::Relaxed) == 1);
    match r {
        Ok(h) => {
            assert!(h.block_hash_1_len() == n);
            let mut i = 0;
            while i < 6 {
                if i < n {
                    assert!(h.block_hash_1()[i] == buf[i]);
                }
                i += 1;
            }
        }
        Err(_) => assert!(false),
    }
    kani::cover!(n == 6);
    kani::cover!(n == 0);
}

/// The real functions on the empty buffer and on one concrete byte.
#[kani::proof]
#[kani::unwind(66)]
fn c03_hash_buf_real_tiny() {
    let e = hash_buf(&[]);
    assert!(e.is_ok());
    let e = e.unwrap();
    assert!(e.block_hash_1_len() == 0 && e.block_hash_2_len() == 0 && e.log_block_size() == 0);
    let one = hash_buf(&[0x41]);
    assert!(one.is_ok());
    let one = one.unwrap();
    assert!(one.block_hash_1_len() == 1 && one.block_hash_2_len() == 1 && one.log_block_size() == 0);
    assert!(one.block_hash_1()[0] == one.block_hash_2()[0]);
    kani::cover!(true);
}
