#![cfg(kani)]
//! C08 (edit distance == LCS distance), C09 (common-substring filter), C17 (position
//! arrays carry nothing over / represent exactly their string), has_sequences.
use super::*;

include!(concat!(env!("CARGO_MANIFEST_DIR"), "/verif_spec/common.rs"));
include!(concat!(env!("CARGO_MANIFEST_DIR"), "/verif_spec/lcs.rs"));

fn any_syms<const L: usize>(alpha: u8) -> [u8; L] {
    let a: [u8; L] = kani::any();
    let mut i = 0;
    while i < L {
        kani::assume(a[i] < alpha);
        i += 1;
    }
    a
}

fn any_len(max: usize) -> usize {
    let n: usize = kani::any();
    kani::assume(n <= max);
    n
}


/// Reference position array of s[..n]: mask[c] bit i <=> i < n && s[i] == c.
/// Index-concrete and loop-constant (64 x L comparators), so that harnesses which only
/// *consume* a position array do not pay for the symbolic-index writes of the real
/// constructor; the real constructor is proved equal to this in the c17_pa_* queries.
fn spec_masks<const L: usize>(s: &[u8; L], n: usize) -> [u64; 64] {
    let mut rep = [0u64; 64];
    let mut c = 0usize;
    while c < 64 {
        let mut m = 0u64;
        let mut i = 0usize;
        while i < L {
            if i < n && s[i] as usize == c {
                m |= 1u64 << i;
            }
            i += 1;
        }
        rep[c] = m;
        c += 1;
    }
    rep
}

fn spec_pa<const L: usize>(s: &[u8; L], n: usize) -> BlockHashPositionArray {
    BlockHashPositionArray { representation: spec_masks::<L>(s, n), len: n as u8 }
}

fn eq_rep(a: &[u64; 64], b: &[u64; 64]) -> bool {
    let mut same = true;
    let mut i = 0;
    while i < 64 {
        if a[i] != b[i] {
            same = false;
        }
        i += 1;
    }
    same
}

// ---- C08 ---------------------------------------------------------------------

/// edit_distance_internal in both argument orders vs the DP, strings <= L over `alpha`
/// symbols (position arrays = spec_masks, see c17_pa_init_*).
fn c08_ed<const L: usize>(alpha: u8) {
    let a = any_syms::<L>(alpha);
    let b = any_syms::<L>(alpha);
    let la = any_len(L);
    let lb = any_len(L);
    let pa = spec_pa::<L>(&a, la);
    let pb = spec_pa::<L>(&b, lb);
    let d = pa.edit_distance_internal(&b[..lb]);
    let expect = spec_edit_distance::<L>(&a, la, &b, lb);
    assert!(d == expect);
    assert!(pb.edit_distance_internal(&a[..la]) == d); // symmetry
    kani::cover!(la == L && lb == L && d == 0);
    kani::cover!(la == L && lb == L && d == 2 * L as u32);
    kani::cover!(la == 0 && lb == L);
    kani::cover!(d != la as u32 + lb as u32 && d != 0 && la != lb);
}

#[kani::proof]
#[kani::unwind(66)]
fn c08_ed_l4_a64() { c08_ed::<4>(64) }
#[kani::proof]
#[kani::unwind(66)]
fn c08_ed_l5_a64() { c08_ed::<5>(64) }
#[kani::proof]
#[kani::unwind(66)]
fn c08_ed_l6_a64() { c08_ed::<6>(64) }
#[kani::proof]
#[kani::unwind(66)]
fn c08_ed_l8_a64() { c08_ed::<8>(64) }
#[kani::proof]
#[kani::unwind(66)]
fn c08_ed_l8_a4() { c08_ed::<8>(4) }
#[kani::proof]
#[kani::unwind(66)]
fn c08_ed_l10_a4() { c08_ed::<10>(4) }
#[kani::proof]
#[kani::unwind(66)]
fn c08_ed_l12_a2() { c08_ed::<12>(2) }

/// The checked entry point is the internal one behind its asserts (real init_from,
/// real is_valid); lengths concrete (2, 2), contents symbolic.
#[kani::proof]
#[kani::unwind(66)]
fn c08_checked_wrapper() {
    let a = any_syms::<2>(64);
    let b = any_syms::<2>(64);
    let mut pa = BlockHashPositionArray::new();
    pa.init_from(&a);
    assert!(pa.edit_distance(&b) == pa.edit_distance_internal(&b));
    assert!(pa.edit_distance(&b) == spec_edit_distance::<2>(&a, 2, &b, 2));
    kani::cover!(pa.edit_distance(&b) == 2);
}

/// carry chains through the top bits: |a| = 63 or 64 (4 symbols), |b| <= 3;
/// LCS by enumeration of the 8 subsequences of b (greedy embedding).
fn embeds(a: &[u8; 64], la: usize, s: &[u8; 3], n: usize) -> bool {
    let mut k = 0usize;
    let mut i = 0;
    while i < 64 {
        if i < la && k < n && a[i] == s[k] {
            k += 1;
        }
        i += 1;
    }
    k == n
}

#[kani::proof]
#[kani::unwind(66)]
fn c08_ed_long_a_short_b() {
    let a = any_syms::<64>(4);
    let la = any_len(64);
    kani::assume(la >= 63);
    let b = any_syms::<3>(4);
    let lb = any_len(3);
    let pa = spec_pa::<64>(&a, la);
    let d = pa.edit_distance_internal(&b[..lb]);
    let mut best = 0u32;
    let mut m = 0u8;
    while m < 8 {
        let mut s = [0u8; 3];
        let mut n = 0usize;
        if m & 1 != 0 && 0 < lb { s[n] = b[0]; n += 1; }
        if m & 2 != 0 && 1 < lb { s[n] = b[1]; n += 1; }
        if m & 4 != 0 && 2 < lb { s[n] = b[2]; n += 1; }
        if embeds(&a, la, &s, n) && n as u32 > best {
            best = n as u32;
        }
        m += 1;
    }
    assert!(d == la as u32 + lb as u32 - 2 * best);
    kani::cover!(la == 64 && lb == 3 && best == 3);
    kani::cover!(la == 63 && best == 0 && lb == 3);
}

// ---- C09 ---------------------------------------------------------------------

/// has_common_substring_internal vs "exists a shared 7-gram":
/// |a| <= LA, |b| <= LB over `alpha` symbols.
fn c09_cs<const LA: usize, const LB: usize>(alpha: u8) {
    let a = any_syms::<LA>(alpha);
    let b = any_syms::<LB>(alpha);
    let la = any_len(LA);
    let lb = any_len(LB);
    let pa = spec_pa::<LA>(&a, la);
    let got = pa.has_common_substring_internal(&b[..lb]);
    let expect = spec_common7::<LA, LB>(&a, la, &b, lb);
    assert!(got == expect);
    kani::cover!(got && la == LA && lb == LB);
    kani::cover!(!got && la == LA && lb == LB);
    kani::cover!(got && la == 7);
}

#[kani::proof]
#[kani::unwind(66)]
fn c09_cs_a10_b9_s64() { c09_cs::<10, 9>(64) }
#[kani::proof]
#[kani::unwind(66)]
fn c09_cs_a12_b12_s4() { c09_cs::<12, 12>(4) }
#[kani::proof]
#[kani::unwind(66)]
fn c09_cs_a16_b12_s4() { c09_cs::<16, 12>(4) }
#[kani::proof]
#[kani::unwind(66)]
fn c09_cs_a16_b16_s2() { c09_cs::<16, 16>(2) }
#[kani::proof]
#[kani::unwind(66)]
fn c09_cs_a64_b16_s4() { c09_cs::<64, 16>(4) }

/// checked wrapper == internal behind its asserts (real is_valid on the reference masks).
#[kani::proof]
#[kani::unwind(66)]
fn c09_checked_wrapper() {
    let a = any_syms::<8>(64);
    let b = any_syms::<8>(64);
    let la = any_len(8);
    let lb = any_len(8);
    let pa = spec_pa::<8>(&a, la);
    assert!(pa.has_common_substring(&b[..lb]) == pa.has_common_substring_internal(&b[..lb]));
    kani::cover!(pa.has_common_substring(&b[..lb]));
    kani::cover!(!pa.has_common_substring(&b[..lb]) && la == 8 && lb == 8);
}

/// Same property stated on arbitrary masks (no string behind them): the scan answers
/// "exists j, i: for k<7 bit i+k of rep[b[j+k]]" for any masks without bits >= len.
fn c09_masks<const LB: usize>(alpha: usize, maxlen: u8) {
    let mut rep = [0u64; 64];
    let mut all = 0u64;
    let mut i = 0;
    while i < 64 {
        if i < alpha {
            rep[i] = kani::any();
            all |= rep[i];
        }
        i += 1;
    }
    let len: u8 = kani::any();
    kani::assume(len <= maxlen);
    kani::assume(all & !crate::internals::utils::u64_lsb_ones(len as u32) == 0);
    let pa = BlockHashPositionArrayRef(&rep, &len);
    let b = any_syms::<LB>(alpha as u8);
    let lb = any_len(LB);
    let got = pa.has_common_substring_internal(&b[..lb]);
    let mut spec = false;
    let mut j = 0;
    while j + 7 <= LB {
        if j + 7 <= lb {
            let mut m = !0u64;
            let mut k = 0;
            while k < 7 {
                m &= rep[b[j + k] as usize] >> k;
                k += 1;
            }
            if m != 0 {
                spec = true;
            }
        }
        j += 1;
    }
    assert!(got == (spec && len >= 7));
    kani::cover!(got);
    kani::cover!(!got && lb == LB && len == maxlen);
}

#[kani::proof]
#[kani::unwind(66)]
fn c09_masks_b12_s4_len16() { c09_masks::<12>(4, 16) }
#[kani::proof]
#[kani::unwind(66)]
fn c09_masks_b16_s4_len64() { c09_masks::<16>(4, 64) }

// ---- C17: position arrays -----------------------------------------------------

fn any_pa() -> BlockHashPositionArray {
    BlockHashPositionArray { representation: kani::any(), len: kani::any() }
}

/// init_from on an ARBITRARY (dirty, possibly invalid) array gives exactly the
/// reference masks of the string (hence == a fresh array's init_from), length n
/// concrete-bounded by L and symbolic.
fn c17_pa_init<const L: usize>() {
    let s = any_syms::<L>(64);
    let n = any_len(L);
    let mut dirty = any_pa();
    dirty.init_from(&s[..n]);
    let expect = spec_masks::<L>(&s, n);
    assert!(eq_rep(&dirty.representation, &expect));
    assert!(dirty.len() as usize == n);
    kani::cover!(n == L);
    kani::cover!(n == 0);
}

#[kani::proof]
#[kani::unwind(66)]
fn c17_pa_init_l8() { c17_pa_init::<8>() }
#[kani::proof]
#[kani::unwind(66)]
fn c17_pa_init_l16() { c17_pa_init::<16>() }
#[kani::proof]
#[kani::unwind(66)]
fn c17_pa_init_l32() { c17_pa_init::<32>() }
#[kani::proof]
#[kani::unwind(66)]
fn c17_pa_init_l64() { c17_pa_init::<64>() }

/// From<new> route: init_from_partial on a zeroed array gives the same masks.
#[kani::proof]
#[kani::unwind(66)]
fn c17_pa_init_partial_l16() {
    let s = any_syms::<16>(64);
    let n = any_len(16);
    let mut fresh = BlockHashPositionArray::new();
    fresh.init_from_partial(&s[..n]);
    assert!(eq_rep(&fresh.representation, &spec_masks::<16>(&s, n)));
    assert!(fresh.len() as usize == n);
    kani::cover!(n == 16);
}

/// clear() on an arbitrary array == new().
#[kani::proof]
#[kani::unwind(66)]
fn c17_pa_clear() {
    let mut dirty = any_pa();
    dirty.clear();
    let fresh = BlockHashPositionArray::new();
    assert!(eq_rep(&dirty.representation, &fresh.representation) && dirty.len == 0 && fresh.len == 0);
    assert!(dirty.is_empty());
}

/// On the reference masks of s: is_valid, is_equiv(t) <=> t == s,
/// is_valid_and_normalized <=> s has no run of 4.
fn c17_pa_queries<const L: usize>() {
    let s = any_syms::<L>(64);
    let n = any_len(L);
    let t = any_syms::<L>(64);
    let m = any_len(L);
    let pa = spec_pa::<L>(&s, n);
    let mut same = n == m;
    let mut run4 = false;
    let mut i = 0;
    while i < L {
        if i < n && i < m && s[i] != t[i] {
            same = false;
        }
        if i >= 3 && i < n && s[i] == s[i - 1] && s[i] == s[i - 2] && s[i] == s[i - 3] {
            run4 = true;
        }
        i += 1;
    }
    assert!(pa.is_valid());
    assert!(pa.is_equiv_internal(&t[..m]) == same);
    assert!(pa.is_valid_and_normalized() == !run4);
    kani::cover!(same && n == L);
    kani::cover!(run4);
    kani::cover!(!same && n == m);
}

#[kani::proof]
#[kani::unwind(66)]
fn c17_pa_queries_l8() { c17_pa_queries::<8>() }
#[kani::proof]
#[kani::unwind(66)]
fn c17_pa_queries_l16() { c17_pa_queries::<16>() }
#[kani::proof]
#[kani::unwind(66)]
fn c17_pa_queries_l64() { c17_pa_queries::<64>() }

/// is_valid on arbitrary data (three arbitrary non-zero masks at arbitrary symbols) ==
/// "len <= 64, masks pairwise disjoint, union == low len bits".
#[kani::proof]
#[kani::unwind(66)]
fn c17_pa_is_valid_spec() {
    let i0: usize = kani::any();
    let i1: usize = kani::any();
    let i2: usize = kani::any();
    kani::assume(i0 < i1 && i1 < i2 && i2 < 64);
    let (a, b, c): (u64, u64, u64) = (kani::any(), kani::any(), kani::any());
    let mut rep = [0u64; 64];
    let mut k = 0;
    while k < 64 {
        rep[k] = if k == i0 { a } else if k == i1 { b } else if k == i2 { c } else { 0 };
        k += 1;
    }
    let len: u8 = kani::any();
    let pa = BlockHashPositionArrayRef(&rep, &len);
    let disjoint = a & b == 0 && a & c == 0 && b & c == 0;
    let full = len <= 64 && (a | b | c) == crate::internals::utils::u64_lsb_ones(if len <= 64 { len as u32 } else { 0 });
    assert!(pa.is_valid() == (len <= 64 && disjoint && full));
    kani::cover!(pa.is_valid() && len == 64);
    kani::cover!(!pa.is_valid() && len <= 64 && disjoint);
}

// ---- has_sequences: all u64 x all lengths 0..=65 --------------------------------

#[kani::proof]
#[kani::unwind(66)]
fn c17_has_sequences_full() {
    let x: u64 = kani::any();
    let n: u32 = kani::any();
    kani::assume(n <= 65);
    let got = block_hash_position_array_element::has_sequences(x, n);
    // spec: exists i: bits i..i+n all ones (i + n <= 64); n == 0 -> true
    let mut spec = n == 0;
    let mut i = 0u32;
    while i < 64 {
        if n >= 1 && i + n <= 64 {
            let mask = crate::internals::utils::u64_lsb_ones(n) << i;
            if x & mask == mask {
                spec = true;
            }
        }
        i += 1;
    }
    assert!(got == spec);
    assert!(block_hash_position_array_element::has_sequences_const::<4>(x) == block_hash_position_array_element::has_sequences(x, 4));
    kani::cover!(got && n == 64);
    kani::cover!(!got && n == 63 && x.count_ones() == 63);
    kani::cover!(n == 65);
}


// ---- C14: unchecked trait == checked trait under the documented contracts ----
#[cfg(feature = "unchecked")]
#[allow(unsafe_code)]
#[kani::proof]
#[kani::unwind(66)]
fn c14_unchecked_position_array_l8() {
    let a = any_syms::<8>(64);
    let b = any_syms::<8>(64);
    let la = any_len(8);
    let lb = any_len(8);
    let log: u8 = kani::any();
    kani::assume(log <= 31);
    // normalized strings (score_strings* require a normalized array)
    let mut i = 3;
    while i < 8 {
        kani::assume(!(i < la && a[i] == a[i - 1] && a[i] == a[i - 2] && a[i] == a[i - 3]));
        i += 1;
    }
    let pa = spec_pa::<8>(&a, la);
    unsafe {
        assert!(pa.is_equiv_unchecked(&b[..lb]) == pa.is_equiv(&b[..lb]));
        assert!(pa.has_common_substring_unchecked(&b[..lb]) == pa.has_common_substring(&b[..lb]));
        assert!(pa.edit_distance_unchecked(&b[..lb]) == pa.edit_distance(&b[..lb]));
        assert!(pa.score_strings_raw_unchecked(&b[..lb]) == pa.score_strings_raw(&b[..lb]));
        assert!(pa.score_strings_unchecked(&b[..lb], log) == pa.score_strings(&b[..lb], log));
    }
    kani::cover!(la == 8 && lb == 8 && pa.has_common_substring(&b[..lb]));
}
