#![cfg(kani)]
//! C20 (score arithmetic, complete domains); C02 / C10 dispatch and laws; C17 / C11 targets.
use super::*;

include!(concat!(env!("CARGO_MANIFEST_DIR"), "/verif_spec/common.rs"));
include!(concat!(env!("CARGO_MANIFEST_DIR"), "/verif_spec/score.rs"));

// ---- C20: scoring helpers on their complete domains --------------------------

/// raw score == ssdeep formula, in 1..=100, no overflow / division by zero:
/// all (l1, l2, d) with 7 <= l <= 64 and d <= l1 + l2 - 14.
#[kani::proof]
fn c20_raw_score_full() {
    let l1: u8 = kani::any();
    let l2: u8 = kani::any();
    let d: u32 = kani::any();
    kani::assume(l1 >= 7 && l1 <= 64 && l2 >= 7 && l2 <= 64);
    kani::assume(d <= l1 as u32 + l2 as u32 - 14);
    let s = FuzzyHashCompareTarget::raw_score_by_edit_distance(l1, l2, d);
    assert!(s == spec_raw_score(l1 as u32, l2 as u32, d));
    assert!(s >= 1 && s <= 100);
    assert!(s >= 11);
    assert!(FuzzyHashCompareTarget::raw_score_by_edit_distance_internal(l1, l2, d) == s);
    assert!(d != 0 || s == 100);
    kani::cover!(s == 11); // the minimum: l1 = l2 = 64, d = 114
    kani::cover!(s == 100 && d > 0);
    kani::cover!(l1 == 64 && l2 == 64 && d == 114);
}

/// score cap: == 2^n * min(l1,l2) below the capping border, 100 from the border
/// upward (public form), and >= 100 there for lengths >= 7: all (n,l1,l2) in 0..=31 x 0..=64^2.
#[kani::proof]
fn c20_score_cap_full() {
    let n: u8 = kani::any();
    let l1: u8 = kani::any();
    let l2: u8 = kani::any();
    kani::assume(n <= 31 && l1 <= 64 && l2 <= 64);
    let c = FuzzyHashCompareTarget::score_cap_on_block_hash_comparison(n, l1, l2);
    if n < 4 {
        assert!(c == spec_score_cap(n as u32, l1 as u32, l2 as u32));
        assert!(FuzzyHashCompareTarget::score_cap_on_block_hash_comparison_internal(n, l1, l2) == c);
    } else {
        assert!(c == 100);
        // the mathematical cap is not binding from the border upward
        if l1 >= 7 && l2 >= 7 {
            assert!(((1u64 << n) * (if l1 < l2 { l1 } else { l2 }) as u64) >= 100);
        }
    }
    assert!(FuzzyHashCompareTarget::LOG_BLOCK_SIZE_CAPPING_BORDER == 4);
    // border is the least such n: at n = 3 the cap can bind (7 * 8 = 56 < 100)
    kani::cover!(n == 3 && l1 == 7 && l2 == 7 && c == 56);
    kani::cover!(n == 31);
    kani::cover!(n == 0 && l1 == 64 && l2 == 64 && c == 64);
}

// =====================================================================================
// C02 / C10: dispatch and wiring of every comparison entry point; score laws
// =====================================================================================
include!(concat!(env!("CARGO_MANIFEST_DIR"), "/verif_spec/lcs.rs"));
include!(concat!(env!("CARGO_MANIFEST_DIR"), "/verif_spec/norm.rs"));
use crate::internals::hash::tests::{any_hash, any_len, dirty_hash, same_obj, spec_valid};

/// reference masks of s[..n] (see position_array/tests.rs: proved equal to the real constructor)
fn spec_masks<const L: usize>(s: &[u8; L], n: usize) -> [u64; 64] {
    let mut rep = [0u64; 64];
    let mut c = 0usize;
    while c < 64 {
        let mut m = 0u64;
        let mut i = 0usize;
        while i < L {
            if i < n && s[i] as usize == c {
                m |= 1u64 << i;
            }
            i += 1;
        }
        rep[c] = m;
        c += 1;
    }
    rep
}

fn eq_rep(a: &[u64; 64], b: &[u64; 64]) -> bool {
    let mut same = true;
    let mut i = 0;
    while i < 64 {
        if a[i] != b[i] {
            same = false;
        }
        i += 1;
    }
    same
}

/// reference masks of s[..n] when n <= M is known (positions >= M carry no bits)
fn spec_masks_m<const L: usize, const M: usize>(s: &[u8; L], n: usize) -> [u64; 64] {
    let mut rep = [0u64; 64];
    let mut c = 0usize;
    while c < 64 {
        let mut m = 0u64;
        let mut i = 0usize;
        while i < M {
            if i < n && s[i] as usize == c {
                m |= 1u64 << i;
            }
            i += 1;
        }
        rep[c] = m;
        c += 1;
    }
    rep
}

/// the target a fresh From<hash> must produce (block hashes <= M symbols)
fn spec_target_m<const S1: usize, const S2: usize, const M: usize>(h: &FuzzyHashData<S1, S2, true>) -> FuzzyHashCompareTarget
where
    BlockHashSize<S1>: ConstrainedBlockHashSize,
    BlockHashSize<S2>: ConstrainedBlockHashSize,
    BlockHashSizes<S1, S2>: ConstrainedBlockHashSizes,
{
    FuzzyHashCompareTarget {
        blockhash1: spec_masks_m::<S1, M>(&h.blockhash1, h.len_blockhash1 as usize),
        blockhash2: spec_masks_m::<S2, M>(&h.blockhash2, h.len_blockhash2 as usize),
        len_blockhash1: h.len_blockhash1,
        len_blockhash2: h.len_blockhash2,
        log_blocksize: h.log_blocksize,
    }
}

/// the target a fresh From<hash> must produce
fn spec_target<const S1: usize, const S2: usize>(h: &FuzzyHashData<S1, S2, true>) -> FuzzyHashCompareTarget
where
    BlockHashSize<S1>: ConstrainedBlockHashSize,
    BlockHashSize<S2>: ConstrainedBlockHashSize,
    BlockHashSizes<S1, S2>: ConstrainedBlockHashSizes,
{
    FuzzyHashCompareTarget {
        blockhash1: spec_masks::<S1>(&h.blockhash1, h.len_blockhash1 as usize),
        blockhash2: spec_masks::<S2>(&h.blockhash2, h.len_blockhash2 as usize),
        len_blockhash1: h.len_blockhash1,
        len_blockhash2: h.len_blockhash2,
        log_blocksize: h.log_blocksize,
    }
}

fn head<const N: usize, const M: usize>(a: &[u8; N]) -> [u8; M] {
    let mut o = [0u8; M];
    let mut i = 0;
    while i < M {
        o[i] = a[i];
        i += 1;
    }
    o
}

/// score of one pair of block hashes (first M symbols of each array) at effective log n
fn spec_pair<const NA: usize, const NB: usize, const M: usize>(a: &[u8; NA], la: usize, b: &[u8; NB], lb: usize, n: u32) -> u32 {
    let (x, y) = (head::<NA, M>(a), head::<NB, M>(b));
    let common = spec_common7::<M, M>(&x, la, &y, lb);
    if !common {
        return 0;
    }
    let d = spec_edit_distance::<M>(&x, la, &y, lb);
    spec_pair_score(true, la as u32, lb as u32, d, n)
}

/// ssdeep score of two normalized hashes whose block hashes have <= M symbols
fn spec_score<const S2A: usize, const S2B: usize, const M: usize>(a: &FuzzyHashData<64, S2A, true>, b: &FuzzyHashData<64, S2B, true>) -> u32
where
    BlockHashSize<S2A>: ConstrainedBlockHashSize,
    BlockHashSize<S2B>: ConstrainedBlockHashSize,
    BlockHashSizes<64, S2A>: ConstrainedBlockHashSizes,
    BlockHashSizes<64, S2B>: ConstrainedBlockHashSizes,
{
    let (na, nb) = (a.log_blocksize as u32, b.log_blocksize as u32);
    let (a1, a2, b1, b2) = (a.len_blockhash1 as usize, a.len_blockhash2 as usize, b.len_blockhash1 as usize, b.len_blockhash2 as usize);
    if na == nb {
        if spec_same_content::<S2A, S2B, M>(a, b) {
            return 100;
        }
        let s1 = spec_pair::<64, 64, M>(&a.blockhash1, a1, &b.blockhash1, b1, na);
        let s2 = spec_pair::<S2A, S2B, M>(&a.blockhash2, a2, &b.blockhash2, b2, na + 1);
        if s1 > s2 { s1 } else { s2 }
    } else if na + 1 == nb {
        spec_pair::<S2A, 64, M>(&a.blockhash2, a2, &b.blockhash1, b1, nb)
    } else if nb + 1 == na {
        spec_pair::<64, S2B, M>(&a.blockhash1, a1, &b.blockhash2, b2, na)
    } else {
        0
    }
}

fn spec_same_content<const S2A: usize, const S2B: usize, const M: usize>(a: &FuzzyHashData<64, S2A, true>, b: &FuzzyHashData<64, S2B, true>) -> bool
where
    BlockHashSize<S2A>: ConstrainedBlockHashSize,
    BlockHashSize<S2B>: ConstrainedBlockHashSize,
    BlockHashSizes<64, S2A>: ConstrainedBlockHashSizes,
    BlockHashSizes<64, S2B>: ConstrainedBlockHashSizes,
{
    if a.log_blocksize != b.log_blocksize || a.len_blockhash1 != b.len_blockhash1 || a.len_blockhash2 != b.len_blockhash2 {
        return false;
    }
    let mut same = true;
    let mut i = 0;
    while i < M {
        if i < a.len_blockhash1 as usize && a.blockhash1[i] != b.blockhash1[i] {
            same = false;
        }
        if i < a.len_blockhash2 as usize && a.blockhash2[i] != b.blockhash2[i] {
            same = false;
        }
        i += 1;
    }
    same
}

/// do the index-window sets of a and b intersect?  (real iterators, proved in block/tests.rs)
fn windows_intersect<const S2A: usize, const S2B: usize, const M: usize>(a: &FuzzyHashData<64, S2A, true>, b: &FuzzyHashData<64, S2B, true>) -> bool
where
    BlockHashSize<S2A>: ConstrainedBlockHashSize,
    BlockHashSize<S2B>: ConstrainedBlockHashSize,
    BlockHashSizes<64, S2A>: ConstrainedBlockHashSizes,
    BlockHashSizes<64, S2B>: ConstrainedBlockHashSizes,
{
    let mut wa = [0u64; 8];
    let mut wb = [0u64; 8];
    let (mut ka, mut kb) = (0usize, 0usize);
    // M <= 10: at most 4 windows per block hash
    let mut it = a.block_hash_1_index_windows();
    let mut i = 0;
    while i < 4 {
        if let Some(w) = it.next() {
            wa[ka] = w;
            ka += 1;
        }
        i += 1;
    }
    let mut it = a.block_hash_2_index_windows();
    let mut i = 0;
    while i < 4 {
        if let Some(w) = it.next() {
            wa[ka] = w;
            ka += 1;
        }
        i += 1;
    }
    let mut it = b.block_hash_1_index_windows();
    let mut i = 0;
    while i < 4 {
        if let Some(w) = it.next() {
            wb[kb] = w;
            kb += 1;
        }
        i += 1;
    }
    let mut it = b.block_hash_2_index_windows();
    let mut i = 0;
    while i < 4 {
        if let Some(w) = it.next() {
            wb[kb] = w;
            kb += 1;
        }
        i += 1;
    }
    let mut hit = false;
    let mut i = 0;
    while i < 8 {
        let mut j = 0;
        while j < 8 {
            if i < ka && j < kb && wa[i] == wb[j] {
                hit = true;
            }
            j += 1;
        }
        i += 1;
    }
    hit
}

fn any_pair<const S2A: usize, const S2B: usize, const M: usize>(alpha: u8, na: u8, nb: u8) -> (FuzzyHashData<64, S2A, true>, FuzzyHashData<64, S2B, true>)
where
    BlockHashSize<S2A>: ConstrainedBlockHashSize,
    BlockHashSize<S2B>: ConstrainedBlockHashSize,
    BlockHashSizes<64, S2A>: ConstrainedBlockHashSizes,
    BlockHashSizes<64, S2B>: ConstrainedBlockHashSizes,
{
    let mut a = any_hash::<64, S2A, true>(M, M);
    let mut b = any_hash::<64, S2B, true>(M, M);
    let mut i = 0;
    while i < M {
        kani::assume(a.blockhash1[i] < alpha && a.blockhash2[i] < alpha && b.blockhash1[i] < alpha && b.blockhash2[i] < alpha);
        i += 1;
    }
    // block sizes are concrete per query (the runner enumerates the pairs), contents symbolic
    a.log_blocksize = na;
    b.log_blocksize = nb;
    (a, b)
}

/// FuzzyHashCompareTarget::compare == the defined score for the block-size pair (na, nb),
/// block hashes <= M symbols over `alpha` symbols.
fn c02_target<const S2A: usize, const S2B: usize, const M: usize>(alpha: u8, na: u8, nb: u8)
where
    BlockHashSize<S2A>: ConstrainedBlockHashSize,
    BlockHashSize<S2B>: ConstrainedBlockHashSize,
    BlockHashSizes<64, S2A>: ConstrainedBlockHashSizes,
    BlockHashSizes<64, S2B>: ConstrainedBlockHashSizes,
{
    let (a, b) = any_pair::<S2A, S2B, M>(alpha, na, nb);
    let ta = spec_target_m::<64, S2A, M>(&a);
    let expect = spec_score::<S2A, S2B, M>(&a, &b);
    let got = ta.compare::<64, S2B>(&b);
    assert!(got == expect);
    assert!(got <= 100);
    let near = na == nb || na + 1 == nb || nb + 1 == na;
    kani::cover!(!near || got > 0);
    kani::cover!(!near || M < 8 || (got > 0 && got < 100));
    kani::cover!(near || got == 0);
    kani::cover!(na != nb || got == 100);
    kani::cover!(got == 0 && a.len_blockhash1 as usize == M && b.len_blockhash1 as usize == M && a.len_blockhash2 as usize == M && b.len_blockhash2 as usize == M);
}

/// the compare_unequal* / near_* entry points agree with compare() under their contracts
fn c02_target_variants<const M: usize>(na: u8, nb: u8) {
    let (a, b) = any_pair::<32, 32, M>(64, na, nb);
    let ta = spec_target_m::<64, 32, M>(&a);
    let same = spec_same_content::<32, 32, M>(&a, &b);
    assert!(ta.is_equiv(&b) == same);
    let full = ta.compare(&b);
    if !same {
        assert!(ta.compare_unequal(&b) == full);
        if na == nb {
            assert!(ta.compare_unequal_near_eq(&b) == full && ta.compare_near_eq(&b) == full);
        } else if na + 1 == nb {
            assert!(ta.compare_unequal_near_lt(&b) == full);
        } else if nb + 1 == na {
            assert!(ta.compare_unequal_near_gt(&b) == full);
        }
    } else {
        assert!(full == 100 && ta.compare_near_eq(&b) == 100);
    }
    kani::cover!(!same && full > 0);
    kani::cover!(na != nb || same);
}

/// C10: score > 0 <=> (a == b or candidate); candidate <=> index-window sets intersect
/// (also through the near_* forms); far => 0 and not a candidate.
fn c10_candidate<const S2: usize, const M: usize>(alpha: u8, na: u8, nb: u8)
where
    BlockHashSize<S2>: ConstrainedBlockHashSize,
    BlockHashSizes<64, S2>: ConstrainedBlockHashSizes,
{
    let (a, b) = any_pair::<S2, S2, M>(alpha, na, nb);
    let ta = spec_target_m::<64, S2, M>(&a);
    let same = spec_same_content::<S2, S2, M>(&a, &b);
    let got = ta.compare::<64, S2>(&b);
    let cand = ta.is_comparison_candidate::<64, S2>(&b);
    assert!((got > 0) == (same || cand));
    assert!(cand == windows_intersect::<S2, S2, M>(&a, &b));
    if na == nb {
        assert!(ta.is_comparison_candidate_near_eq::<64, S2>(&b) == cand);
    } else if na + 1 == nb {
        assert!(ta.is_comparison_candidate_near_lt::<64, S2>(&b) == cand);
    } else if nb + 1 == na {
        assert!(ta.is_comparison_candidate_near_gt::<64, S2>(&b) == cand);
    } else {
        assert!(got == 0 && !cand);
    }
    let near = na == nb || na + 1 == nb || nb + 1 == na;
    kani::cover!(!near || (cand && !same));
    kani::cover!(!cand && a.len_blockhash1 as usize == M && b.len_blockhash1 as usize == M);
}

/// C10, first half (no score computation): candidate <=> index-window sets intersect, through the general
/// and the near_* forms; far pairs are never candidates.
fn c10_cand_windows<const S2: usize, const M: usize>(alpha: u8, na: u8, nb: u8)
where
    BlockHashSize<S2>: ConstrainedBlockHashSize,
    BlockHashSizes<64, S2>: ConstrainedBlockHashSizes,
{
    let (a, b) = any_pair::<S2, S2, M>(alpha, na, nb);
    let ta = spec_target_m::<64, S2, M>(&a);
    let same = spec_same_content::<S2, S2, M>(&a, &b);
    let cand = ta.is_comparison_candidate::<64, S2>(&b);
    assert!(cand == windows_intersect::<S2, S2, M>(&a, &b));
    if na == nb {
        assert!(ta.is_comparison_candidate_near_eq::<64, S2>(&b) == cand);
    } else if na + 1 == nb {
        assert!(ta.is_comparison_candidate_near_lt::<64, S2>(&b) == cand);
    } else if nb + 1 == na {
        assert!(ta.is_comparison_candidate_near_gt::<64, S2>(&b) == cand);
    } else {
        assert!(!cand);
    }
    let near = na == nb || na + 1 == nb || nb + 1 == na;
    kani::cover!(!near || (cand && !same));
    kani::cover!(!cand && a.len_blockhash1 as usize == M && b.len_blockhash1 as usize == M);
}

/// C10, second half: score > 0 <=> (same content or candidate); far => 0.
fn c10_score_positive<const S2: usize, const M: usize>(alpha: u8, na: u8, nb: u8)
where
    BlockHashSize<S2>: ConstrainedBlockHashSize,
    BlockHashSizes<64, S2>: ConstrainedBlockHashSizes,
{
    let (a, b) = any_pair::<S2, S2, M>(alpha, na, nb);
    let ta = spec_target_m::<64, S2, M>(&a);
    let same = spec_same_content::<S2, S2, M>(&a, &b);
    let got = ta.compare::<64, S2>(&b);
    let cand = ta.is_comparison_candidate::<64, S2>(&b);
    assert!((got > 0) == (same || cand));
    let near = na == nb || na + 1 == nb || nb + 1 == na;
    assert!(near || got == 0);
    kani::cover!(!near || (cand && !same));
    kani::cover!(!cand && a.len_blockhash1 as usize == M && b.len_blockhash1 as usize == M);
}

/// equal block sizes with one of the two block hashes EMPTY on both sides: `which` = 1 keeps
/// block hash 1 free (<= M symbols), `which` = 2 keeps block hash 2 free.  Both halves of C10 in one obligation
/// per half, so that the near_eq route is exercised by the quick tier at a fraction of the cost of two free pairs.
fn c10_eq_one_free<const M: usize>(n: u8, which: u8, half: u8) {
    let (mut a, mut b) = any_pair::<32, 32, M>(64, n, n);
    // concretely empty (and therefore still valid): symbolic execution prunes the second block-hash comparison
    if which == 1 {
        a.len_blockhash2 = 0;
        b.len_blockhash2 = 0;
        a.blockhash2 = [0; 32];
        b.blockhash2 = [0; 32];
    } else {
        a.len_blockhash1 = 0;
        b.len_blockhash1 = 0;
        a.blockhash1 = [0; 64];
        b.blockhash1 = [0; 64];
    }
    let ta = spec_target_m::<64, 32, M>(&a);
    let same = spec_same_content::<32, 32, M>(&a, &b);
    let cand = ta.is_comparison_candidate::<64, 32>(&b);
    if half == 0 {
        assert!(cand == windows_intersect::<32, 32, M>(&a, &b));
        assert!(ta.is_comparison_candidate_near_eq::<64, 32>(&b) == cand);
    } else {
        let got = ta.compare::<64, 32>(&b);
        assert!((got > 0) == (same || cand));
        assert!(!same || got == 100);
    }
    kani::cover!(cand && !same);
    kani::cover!(!cand && (a.len_blockhash1 as usize == M || a.len_blockhash2 as usize == M));
}
#[kani::proof]
#[kani::unwind(66)]
fn c10_w_s_m8_eq1_3() { c10_eq_one_free::<8>(3, 1, 0) }
#[kani::proof]
#[kani::unwind(66)]
fn c10_w_s_m8_eq2_30() { c10_eq_one_free::<8>(30, 2, 0) }
#[kani::proof]
#[kani::unwind(66)]
fn c10_p_s_m8_eq1_30() { c10_eq_one_free::<8>(30, 1, 1) }
#[kani::proof]
#[kani::unwind(66)]
fn c10_p_s_m8_eq2_3() { c10_eq_one_free::<8>(3, 2, 1) }
#[kani::proof]
#[kani::unwind(66)]
fn c10_w_s_m8_3_3() { c10_cand_windows::<32, 8>(64, 3, 3) }
#[kani::proof]
#[kani::unwind(66)]
fn c10_w_s_m8_3_4() { c10_cand_windows::<32, 8>(64, 3, 4) }
#[kani::proof]
#[kani::unwind(66)]
fn c10_w_s_m8_30_29() { c10_cand_windows::<32, 8>(64, 30, 29) }
#[kani::proof]
#[kani::unwind(66)]
fn c10_p_s_m7a4_3_3() { c10_score_positive::<32, 7>(4, 3, 3) }
#[kani::proof]
#[kani::unwind(66)]
fn c10_p_s_m8_3_4() { c10_score_positive::<32, 8>(64, 3, 4) }
#[kani::proof]
#[kani::unwind(66)]
fn c10_p_s_m8_30_29() { c10_score_positive::<32, 8>(64, 30, 29) }
#[kani::proof]
#[kani::unwind(66)]
fn c10_c_s_m7a4_3_3() { c10_candidate::<32, 7>(4, 3, 3) }
#[kani::proof]
#[kani::unwind(66)]
fn c10_c_s_m7a4_30_30() { c10_candidate::<32, 7>(4, 30, 30) }
#[kani::proof]
#[kani::unwind(66)]
fn c10_c_s_m7_3_3() { c10_candidate::<32, 7>(64, 3, 3) }
#[kani::proof]
#[kani::unwind(66)]
fn c10_c_s_m7_30_30() { c10_candidate::<32, 7>(64, 30, 30) }
// one harness per block-size pair (all 31 equal, 30 + 30 adjacent, a few far ones)
#[kani::proof]
#[kani::unwind(66)]
fn c02_t_ss_m7_0_0() { c02_target::<32, 32, 7>(64, 0, 0) }
#[kani::proof]
#[kani::unwind(66)]
fn c02_t_ss_m7_0_1() { c02_target::<32, 32, 7>(64, 0, 1) }
#[kani::proof]
#[kani::unwind(66)]
fn c02_t_ss_m7_1_0() { c02_target::<32, 32, 7>(64, 1, 0) }
#[kani::proof]
#[kani::unwind(66)]
fn c02_t_ss_m7_1_1() { c02_target::<32, 32, 7>(64, 1, 1) }
#[kani::proof]
#[kani::unwind(66)]
fn c02_t_ss_m7_1_2() { c02_target::<32, 32, 7>(64, 1, 2) }
#[kani::proof]
#[kani::unwind(66)]
fn c02_t_ss_m7_2_1() { c02_target::<32, 32, 7>(64, 2, 1) }
#[kani::proof]
#[kani::unwind(66)]
fn c02_t_ss_m7_2_2() { c02_target::<32, 32, 7>(64, 2, 2) }
#[kani::proof]
#[kani::unwind(66)]
fn c02_t_ss_m7_2_3() { c02_target::<32, 32, 7>(64, 2, 3) }
#[kani::proof]
#[kani::unwind(66)]
fn c02_t_ss_m7_3_2() { c02_target::<32, 32, 7>(64, 3, 2) }
#[kani::proof]
#[kani::unwind(66)]
fn c02_t_ss_m7_3_3() { c02_target::<32, 32, 7>(64, 3, 3) }
#[kani::proof]
#[kani::unwind(66)]
fn c02_t_ss_m7_3_4() { c02_target::<32, 32, 7>(64, 3, 4) }
#[kani::proof]
#[kani::unwind(66)]
fn c02_t_ss_m7_4_3() { c02_target::<32, 32, 7>(64, 4, 3) }
#[kani::proof]
#[kani::unwind(66)]
fn c02_t_ss_m7_4_4() { c02_target::<32, 32, 7>(64, 4, 4) }
#[kani::proof]
#[kani::unwind(66)]
fn c02_t_ss_m7_4_5() { c02_target::<32, 32, 7>(64, 4, 5) }
#[kani::proof]
#[kani::unwind(66)]
fn c02_t_ss_m7_5_4() { c02_target::<32, 32, 7>(64, 5, 4) }
#[kani::proof]
#[kani::unwind(66)]
fn c02_t_ss_m7_5_5() { c02_target::<32, 32, 7>(64, 5, 5) }
#[kani::proof]
#[kani::unwind(66)]
fn c02_t_ss_m7_5_6() { c02_target::<32, 32, 7>(64, 5, 6) }
#[kani::proof]
#[kani::unwind(66)]
fn c02_t_ss_m7_6_5() { c02_target::<32, 32, 7>(64, 6, 5) }
#[kani::proof]
#[kani::unwind(66)]
fn c02_t_ss_m7_6_6() { c02_target::<32, 32, 7>(64, 6, 6) }
#[kani::proof]
#[kani::unwind(66)]
fn c02_t_ss_m7_6_7() { c02_target::<32, 32, 7>(64, 6, 7) }
#[kani::proof]
#[kani::unwind(66)]
fn c02_t_ss_m7_7_6() { c02_target::<32, 32, 7>(64, 7, 6) }
#[kani::proof]
#[kani::unwind(66)]
fn c02_t_ss_m7_7_7() { c02_target::<32, 32, 7>(64, 7, 7) }
#[kani::proof]
#[kani::unwind(66)]
fn c02_t_ss_m7_7_8() { c02_target::<32, 32, 7>(64, 7, 8) }
#[kani::proof]
#[kani::unwind(66)]
fn c02_t_ss_m7_8_7() { c02_target::<32, 32, 7>(64, 8, 7) }
#[kani::proof]
#[kani::unwind(66)]
fn c02_t_ss_m7_8_8() { c02_target::<32, 32, 7>(64, 8, 8) }
#[kani::proof]
#[kani::unwind(66)]
fn c02_t_ss_m7_8_9() { c02_target::<32, 32, 7>(64, 8, 9) }
#[kani::proof]
#[kani::unwind(66)]
fn c02_t_ss_m7_9_8() { c02_target::<32, 32, 7>(64, 9, 8) }
#[kani::proof]
#[kani::unwind(66)]
fn c02_t_ss_m7_9_9() { c02_target::<32, 32, 7>(64, 9, 9) }
#[kani::proof]
#[kani::unwind(66)]
fn c02_t_ss_m7_9_10() { c02_target::<32, 32, 7>(64, 9, 10) }
#[kani::proof]
#[kani::unwind(66)]
fn c02_t_ss_m7_10_9() { c02_target::<32, 32, 7>(64, 10, 9) }
#[kani::proof]
#[kani::unwind(66)]
fn c02_t_ss_m7_10_10() { c02_target::<32, 32, 7>(64, 10, 10) }
#[kani::proof]
#[kani::unwind(66)]
fn c02_t_ss_m7_10_11() { c02_target::<32, 32, 7>(64, 10, 11) }
#[kani::proof]
#[kani::unwind(66)]
fn c02_t_ss_m7_11_10() { c02_target::<32, 32, 7>(64, 11, 10) }
#[kani::proof]
#[kani::unwind(66)]
fn c02_t_ss_m7_11_11() { c02_target::<32, 32, 7>(64, 11, 11) }
#[kani::proof]
#[kani::unwind(66)]
fn c02_t_ss_m7_11_12() { c02_target::<32, 32, 7>(64, 11, 12) }
#[kani::proof]
#[kani::unwind(66)]
fn c02_t_ss_m7_12_11() { c02_target::<32, 32, 7>(64, 12, 11) }
#[kani::proof]
#[kani::unwind(66)]
fn c02_t_ss_m7_12_12() { c02_target::<32, 32, 7>(64, 12, 12) }
#[kani::proof]
#[kani::unwind(66)]
fn c02_t_ss_m7_12_13() { c02_target::<32, 32, 7>(64, 12, 13) }
#[kani::proof]
#[kani::unwind(66)]
fn c02_t_ss_m7_13_12() { c02_target::<32, 32, 7>(64, 13, 12) }
#[kani::proof]
#[kani::unwind(66)]
fn c02_t_ss_m7_13_13() { c02_target::<32, 32, 7>(64, 13, 13) }
#[kani::proof]
#[kani::unwind(66)]
fn c02_t_ss_m7_13_14() { c02_target::<32, 32, 7>(64, 13, 14) }
#[kani::proof]
#[kani::unwind(66)]
fn c02_t_ss_m7_14_13() { c02_target::<32, 32, 7>(64, 14, 13) }
#[kani::proof]
#[kani::unwind(66)]
fn c02_t_ss_m7_14_14() { c02_target::<32, 32, 7>(64, 14, 14) }
#[kani::proof]
#[kani::unwind(66)]
fn c02_t_ss_m7_14_15() { c02_target::<32, 32, 7>(64, 14, 15) }
#[kani::proof]
#[kani::unwind(66)]
fn c02_t_ss_m7_15_14() { c02_target::<32, 32, 7>(64, 15, 14) }
#[kani::proof]
#[kani::unwind(66)]
fn c02_t_ss_m7_15_15() { c02_target::<32, 32, 7>(64, 15, 15) }
#[kani::proof]
#[kani::unwind(66)]
fn c02_t_ss_m7_15_16() { c02_target::<32, 32, 7>(64, 15, 16) }
#[kani::proof]
#[kani::unwind(66)]
fn c02_t_ss_m7_16_15() { c02_target::<32, 32, 7>(64, 16, 15) }
#[kani::proof]
#[kani::unwind(66)]
fn c02_t_ss_m7_16_16() { c02_target::<32, 32, 7>(64, 16, 16) }
#[kani::proof]
#[kani::unwind(66)]
fn c02_t_ss_m7_16_17() { c02_target::<32, 32, 7>(64, 16, 17) }
#[kani::proof]
#[kani::unwind(66)]
fn c02_t_ss_m7_17_16() { c02_target::<32, 32, 7>(64, 17, 16) }
#[kani::proof]
#[kani::unwind(66)]
fn c02_t_ss_m7_17_17() { c02_target::<32, 32, 7>(64, 17, 17) }
#[kani::proof]
#[kani::unwind(66)]
fn c02_t_ss_m7_17_18() { c02_target::<32, 32, 7>(64, 17, 18) }
#[kani::proof]
#[kani::unwind(66)]
fn c02_t_ss_m7_18_17() { c02_target::<32, 32, 7>(64, 18, 17) }
#[kani::proof]
#[kani::unwind(66)]
fn c02_t_ss_m7_18_18() { c02_target::<32, 32, 7>(64, 18, 18) }
#[kani::proof]
#[kani::unwind(66)]
fn c02_t_ss_m7_18_19() { c02_target::<32, 32, 7>(64, 18, 19) }
#[kani::proof]
#[kani::unwind(66)]
fn c02_t_ss_m7_19_18() { c02_target::<32, 32, 7>(64, 19, 18) }
#[kani::proof]
#[kani::unwind(66)]
fn c02_t_ss_m7_19_19() { c02_target::<32, 32, 7>(64, 19, 19) }
#[kani::proof]
#[kani::unwind(66)]
fn c02_t_ss_m7_19_20() { c02_target::<32, 32, 7>(64, 19, 20) }
#[kani::proof]
#[kani::unwind(66)]
fn c02_t_ss_m7_20_19() { c02_target::<32, 32, 7>(64, 20, 19) }
#[kani::proof]
#[kani::unwind(66)]
fn c02_t_ss_m7_20_20() { c02_target::<32, 32, 7>(64, 20, 20) }
#[kani::proof]
#[kani::unwind(66)]
fn c02_t_ss_m7_20_21() { c02_target::<32, 32, 7>(64, 20, 21) }
#[kani::proof]
#[kani::unwind(66)]
fn c02_t_ss_m7_21_20() { c02_target::<32, 32, 7>(64, 21, 20) }
#[kani::proof]
#[kani::unwind(66)]
fn c02_t_ss_m7_21_21() { c02_target::<32, 32, 7>(64, 21, 21) }
#[kani::proof]
#[kani::unwind(66)]
fn c02_t_ss_m7_21_22() { c02_target::<32, 32, 7>(64, 21, 22) }
#[kani::proof]
#[kani::unwind(66)]
fn c02_t_ss_m7_22_21() { c02_target::<32, 32, 7>(64, 22, 21) }
#[kani::proof]
#[kani::unwind(66)]
fn c02_t_ss_m7_22_22() { c02_target::<32, 32, 7>(64, 22, 22) }
#[kani::proof]
#[kani::unwind(66)]
fn c02_t_ss_m7_22_23() { c02_target::<32, 32, 7>(64, 22, 23) }
#[kani::proof]
#[kani::unwind(66)]
fn c02_t_ss_m7_23_22() { c02_target::<32, 32, 7>(64, 23, 22) }
#[kani::proof]
#[kani::unwind(66)]
fn c02_t_ss_m7_23_23() { c02_target::<32, 32, 7>(64, 23, 23) }
#[kani::proof]
#[kani::unwind(66)]
fn c02_t_ss_m7_23_24() { c02_target::<32, 32, 7>(64, 23, 24) }
#[kani::proof]
#[kani::unwind(66)]
fn c02_t_ss_m7_24_23() { c02_target::<32, 32, 7>(64, 24, 23) }
#[kani::proof]
#[kani::unwind(66)]
fn c02_t_ss_m7_24_24() { c02_target::<32, 32, 7>(64, 24, 24) }
#[kani::proof]
#[kani::unwind(66)]
fn c02_t_ss_m7_24_25() { c02_target::<32, 32, 7>(64, 24, 25) }
#[kani::proof]
#[kani::unwind(66)]
fn c02_t_ss_m7_25_24() { c02_target::<32, 32, 7>(64, 25, 24) }
#[kani::proof]
#[kani::unwind(66)]
fn c02_t_ss_m7_25_25() { c02_target::<32, 32, 7>(64, 25, 25) }
#[kani::proof]
#[kani::unwind(66)]
fn c02_t_ss_m7_25_26() { c02_target::<32, 32, 7>(64, 25, 26) }
#[kani::proof]
#[kani::unwind(66)]
fn c02_t_ss_m7_26_25() { c02_target::<32, 32, 7>(64, 26, 25) }
#[kani::proof]
#[kani::unwind(66)]
fn c02_t_ss_m7_26_26() { c02_target::<32, 32, 7>(64, 26, 26) }
#[kani::proof]
#[kani::unwind(66)]
fn c02_t_ss_m7_26_27() { c02_target::<32, 32, 7>(64, 26, 27) }
#[kani::proof]
#[kani::unwind(66)]
fn c02_t_ss_m7_27_26() { c02_target::<32, 32, 7>(64, 27, 26) }
#[kani::proof]
#[kani::unwind(66)]
fn c02_t_ss_m7_27_27() { c02_target::<32, 32, 7>(64, 27, 27) }
#[kani::proof]
#[kani::unwind(66)]
fn c02_t_ss_m7_27_28() { c02_target::<32, 32, 7>(64, 27, 28) }
#[kani::proof]
#[kani::unwind(66)]
fn c02_t_ss_m7_28_27() { c02_target::<32, 32, 7>(64, 28, 27) }
#[kani::proof]
#[kani::unwind(66)]
fn c02_t_ss_m7_28_28() { c02_target::<32, 32, 7>(64, 28, 28) }
#[kani::proof]
#[kani::unwind(66)]
fn c02_t_ss_m7_28_29() { c02_target::<32, 32, 7>(64, 28, 29) }
#[kani::proof]
#[kani::unwind(66)]
fn c02_t_ss_m7_29_28() { c02_target::<32, 32, 7>(64, 29, 28) }
#[kani::proof]
#[kani::unwind(66)]
fn c02_t_ss_m7_29_29() { c02_target::<32, 32, 7>(64, 29, 29) }
#[kani::proof]
#[kani::unwind(66)]
fn c02_t_ss_m7_29_30() { c02_target::<32, 32, 7>(64, 29, 30) }
#[kani::proof]
#[kani::unwind(66)]
fn c02_t_ss_m7_30_29() { c02_target::<32, 32, 7>(64, 30, 29) }
#[kani::proof]
#[kani::unwind(66)]
fn c02_t_ss_m7_30_30() { c02_target::<32, 32, 7>(64, 30, 30) }
#[kani::proof]
#[kani::unwind(66)]
fn c02_t_ss_m7_0_2() { c02_target::<32, 32, 7>(64, 0, 2) }
#[kani::proof]
#[kani::unwind(66)]
fn c02_t_ss_m7_2_0() { c02_target::<32, 32, 7>(64, 2, 0) }
#[kani::proof]
#[kani::unwind(66)]
fn c02_t_ss_m7_0_30() { c02_target::<32, 32, 7>(64, 0, 30) }
#[kani::proof]
#[kani::unwind(66)]
fn c02_t_ss_m7_30_0() { c02_target::<32, 32, 7>(64, 30, 0) }
#[kani::proof]
#[kani::unwind(66)]
fn c02_t_ss_m7_13_15() { c02_target::<32, 32, 7>(64, 13, 15) }
#[kani::proof]
#[kani::unwind(66)]
fn c02_t_ss_m7_28_30() { c02_target::<32, 32, 7>(64, 28, 30) }
#[kani::proof]
#[kani::unwind(66)]
fn c02_t_ll_m8_2_2() { c02_target::<64, 64, 8>(64, 2, 2) }
#[kani::proof]
#[kani::unwind(66)]
fn c02_t_ll_m8_3_4() { c02_target::<64, 64, 8>(64, 3, 4) }
#[kani::proof]
#[kani::unwind(66)]
fn c02_t_ll_m8_30_29() { c02_target::<64, 64, 8>(64, 30, 29) }
#[kani::proof]
#[kani::unwind(66)]
fn c02_t_ll_m8_30_30() { c02_target::<64, 64, 8>(64, 30, 30) }
#[kani::proof]
#[kani::unwind(66)]
fn c02_t_sl_m8_3_3() { c02_target::<32, 64, 8>(64, 3, 3) }
#[kani::proof]
#[kani::unwind(66)]
fn c02_t_sl_m8_7_8() { c02_target::<32, 64, 8>(64, 7, 8) }
#[kani::proof]
#[kani::unwind(66)]
fn c02_t_sl_m8_30_29() { c02_target::<32, 64, 8>(64, 30, 29) }
#[kani::proof]
#[kani::unwind(66)]
fn c02_t_ss_m10a4_1_1() { c02_target::<32, 32, 10>(4, 1, 1) }
#[kani::proof]
#[kani::unwind(66)]
fn c02_t_ss_m10a4_3_4() { c02_target::<32, 32, 10>(4, 3, 4) }
#[kani::proof]
#[kani::unwind(66)]
fn c02_t_ss_m10a4_5_4() { c02_target::<32, 32, 10>(4, 5, 4) }
#[kani::proof]
#[kani::unwind(66)]
fn c02_t_ss_m10a4_30_30() { c02_target::<32, 32, 10>(4, 30, 30) }
#[kani::proof]
#[kani::unwind(66)]
fn c02_v_m7_3_3() { c02_target_variants::<7>(3, 3) }
#[kani::proof]
#[kani::unwind(66)]
fn c02_v_m7_3_4() { c02_target_variants::<7>(3, 4) }
#[kani::proof]
#[kani::unwind(66)]
fn c02_v_m7_4_3() { c02_target_variants::<7>(4, 3) }
#[kani::proof]
#[kani::unwind(66)]
fn c02_v_m7_30_30() { c02_target_variants::<7>(30, 30) }
#[kani::proof]
#[kani::unwind(66)]
fn c02_v_m7_29_30() { c02_target_variants::<7>(29, 30) }
#[kani::proof]
#[kani::unwind(66)]
fn c02_v_m7_30_29() { c02_target_variants::<7>(30, 29) }
#[kani::proof]
#[kani::unwind(66)]
fn c10_c_s_m8_0_0() { c10_candidate::<32, 8>(64, 0, 0) }
#[kani::proof]
#[kani::unwind(66)]
fn c10_c_s_m8_0_1() { c10_candidate::<32, 8>(64, 0, 1) }
#[kani::proof]
#[kani::unwind(66)]
fn c10_c_s_m8_1_0() { c10_candidate::<32, 8>(64, 1, 0) }
#[kani::proof]
#[kani::unwind(66)]
fn c10_c_s_m8_1_1() { c10_candidate::<32, 8>(64, 1, 1) }
#[kani::proof]
#[kani::unwind(66)]
fn c10_c_s_m8_1_2() { c10_candidate::<32, 8>(64, 1, 2) }
#[kani::proof]
#[kani::unwind(66)]
fn c10_c_s_m8_2_1() { c10_candidate::<32, 8>(64, 2, 1) }
#[kani::proof]
#[kani::unwind(66)]
fn c10_c_s_m8_2_2() { c10_candidate::<32, 8>(64, 2, 2) }
#[kani::proof]
#[kani::unwind(66)]
fn c10_c_s_m8_2_3() { c10_candidate::<32, 8>(64, 2, 3) }
#[kani::proof]
#[kani::unwind(66)]
fn c10_c_s_m8_3_2() { c10_candidate::<32, 8>(64, 3, 2) }
#[kani::proof]
#[kani::unwind(66)]
fn c10_c_s_m8_3_3() { c10_candidate::<32, 8>(64, 3, 3) }
#[kani::proof]
#[kani::unwind(66)]
fn c10_c_s_m8_3_4() { c10_candidate::<32, 8>(64, 3, 4) }
#[kani::proof]
#[kani::unwind(66)]
fn c10_c_s_m8_4_3() { c10_candidate::<32, 8>(64, 4, 3) }
#[kani::proof]
#[kani::unwind(66)]
fn c10_c_s_m8_4_4() { c10_candidate::<32, 8>(64, 4, 4) }
#[kani::proof]
#[kani::unwind(66)]
fn c10_c_s_m8_4_5() { c10_candidate::<32, 8>(64, 4, 5) }
#[kani::proof]
#[kani::unwind(66)]
fn c10_c_s_m8_5_4() { c10_candidate::<32, 8>(64, 5, 4) }
#[kani::proof]
#[kani::unwind(66)]
fn c10_c_s_m8_5_5() { c10_candidate::<32, 8>(64, 5, 5) }
#[kani::proof]
#[kani::unwind(66)]
fn c10_c_s_m8_5_6() { c10_candidate::<32, 8>(64, 5, 6) }
#[kani::proof]
#[kani::unwind(66)]
fn c10_c_s_m8_6_5() { c10_candidate::<32, 8>(64, 6, 5) }
#[kani::proof]
#[kani::unwind(66)]
fn c10_c_s_m8_6_6() { c10_candidate::<32, 8>(64, 6, 6) }
#[kani::proof]
#[kani::unwind(66)]
fn c10_c_s_m8_6_7() { c10_candidate::<32, 8>(64, 6, 7) }
#[kani::proof]
#[kani::unwind(66)]
fn c10_c_s_m8_7_6() { c10_candidate::<32, 8>(64, 7, 6) }
#[kani::proof]
#[kani::unwind(66)]
fn c10_c_s_m8_7_7() { c10_candidate::<32, 8>(64, 7, 7) }
#[kani::proof]
#[kani::unwind(66)]
fn c10_c_s_m8_7_8() { c10_candidate::<32, 8>(64, 7, 8) }
#[kani::proof]
#[kani::unwind(66)]
fn c10_c_s_m8_8_7() { c10_candidate::<32, 8>(64, 8, 7) }
#[kani::proof]
#[kani::unwind(66)]
fn c10_c_s_m8_8_8() { c10_candidate::<32, 8>(64, 8, 8) }
#[kani::proof]
#[kani::unwind(66)]
fn c10_c_s_m8_8_9() { c10_candidate::<32, 8>(64, 8, 9) }
#[kani::proof]
#[kani::unwind(66)]
fn c10_c_s_m8_9_8() { c10_candidate::<32, 8>(64, 9, 8) }
#[kani::proof]
#[kani::unwind(66)]
fn c10_c_s_m8_9_9() { c10_candidate::<32, 8>(64, 9, 9) }
#[kani::proof]
#[kani::unwind(66)]
fn c10_c_s_m8_9_10() { c10_candidate::<32, 8>(64, 9, 10) }
#[kani::proof]
#[kani::unwind(66)]
fn c10_c_s_m8_10_9() { c10_candidate::<32, 8>(64, 10, 9) }
#[kani::proof]
#[kani::unwind(66)]
fn c10_c_s_m8_10_10() { c10_candidate::<32, 8>(64, 10, 10) }
#[kani::proof]
#[kani::unwind(66)]
fn c10_c_s_m8_10_11() { c10_candidate::<32, 8>(64, 10, 11) }
#[kani::proof]
#[kani::unwind(66)]
fn c10_c_s_m8_11_10() { c10_candidate::<32, 8>(64, 11, 10) }
#[kani::proof]
#[kani::unwind(66)]
fn c10_c_s_m8_11_11() { c10_candidate::<32, 8>(64, 11, 11) }
#[kani::proof]
#[kani::unwind(66)]
fn c10_c_s_m8_11_12() { c10_candidate::<32, 8>(64, 11, 12) }
#[kani::proof]
#[kani::unwind(66)]
fn c10_c_s_m8_12_11() { c10_candidate::<32, 8>(64, 12, 11) }
#[kani::proof]
#[kani::unwind(66)]
fn c10_c_s_m8_12_12() { c10_candidate::<32, 8>(64, 12, 12) }
#[kani::proof]
#[kani::unwind(66)]
fn c10_c_s_m8_12_13() { c10_candidate::<32, 8>(64, 12, 13) }
#[kani::proof]
#[kani::unwind(66)]
fn c10_c_s_m8_13_12() { c10_candidate::<32, 8>(64, 13, 12) }
#[kani::proof]
#[kani::unwind(66)]
fn c10_c_s_m8_13_13() { c10_candidate::<32, 8>(64, 13, 13) }
#[kani::proof]
#[kani::unwind(66)]
fn c10_c_s_m8_13_14() { c10_candidate::<32, 8>(64, 13, 14) }
#[kani::proof]
#[kani::unwind(66)]
fn c10_c_s_m8_14_13() { c10_candidate::<32, 8>(64, 14, 13) }
#[kani::proof]
#[kani::unwind(66)]
fn c10_c_s_m8_14_14() { c10_candidate::<32, 8>(64, 14, 14) }
#[kani::proof]
#[kani::unwind(66)]
fn c10_c_s_m8_14_15() { c10_candidate::<32, 8>(64, 14, 15) }
#[kani::proof]
#[kani::unwind(66)]
fn c10_c_s_m8_15_14() { c10_candidate::<32, 8>(64, 15, 14) }
#[kani::proof]
#[kani::unwind(66)]
fn c10_c_s_m8_15_15() { c10_candidate::<32, 8>(64, 15, 15) }
#[kani::proof]
#[kani::unwind(66)]
fn c10_c_s_m8_15_16() { c10_candidate::<32, 8>(64, 15, 16) }
#[kani::proof]
#[kani::unwind(66)]
fn c10_c_s_m8_16_15() { c10_candidate::<32, 8>(64, 16, 15) }
#[kani::proof]
#[kani::unwind(66)]
fn c10_c_s_m8_16_16() { c10_candidate::<32, 8>(64, 16, 16) }
#[kani::proof]
#[kani::unwind(66)]
fn c10_c_s_m8_16_17() { c10_candidate::<32, 8>(64, 16, 17) }
#[kani::proof]
#[kani::unwind(66)]
fn c10_c_s_m8_17_16() { c10_candidate::<32, 8>(64, 17, 16) }
#[kani::proof]
#[kani::unwind(66)]
fn c10_c_s_m8_17_17() { c10_candidate::<32, 8>(64, 17, 17) }
#[kani::proof]
#[kani::unwind(66)]
fn c10_c_s_m8_17_18() { c10_candidate::<32, 8>(64, 17, 18) }
#[kani::proof]
#[kani::unwind(66)]
fn c10_c_s_m8_18_17() { c10_candidate::<32, 8>(64, 18, 17) }
#[kani::proof]
#[kani::unwind(66)]
fn c10_c_s_m8_18_18() { c10_candidate::<32, 8>(64, 18, 18) }
#[kani::proof]
#[kani::unwind(66)]
fn c10_c_s_m8_18_19() { c10_candidate::<32, 8>(64, 18, 19) }
#[kani::proof]
#[kani::unwind(66)]
fn c10_c_s_m8_19_18() { c10_candidate::<32, 8>(64, 19, 18) }
#[kani::proof]
#[kani::unwind(66)]
fn c10_c_s_m8_19_19() { c10_candidate::<32, 8>(64, 19, 19) }
#[kani::proof]
#[kani::unwind(66)]
fn c10_c_s_m8_19_20() { c10_candidate::<32, 8>(64, 19, 20) }
#[kani::proof]
#[kani::unwind(66)]
fn c10_c_s_m8_20_19() { c10_candidate::<32, 8>(64, 20, 19) }
#[kani::proof]
#[kani::unwind(66)]
fn c10_c_s_m8_20_20() { c10_candidate::<32, 8>(64, 20, 20) }
#[kani::proof]
#[kani::unwind(66)]
fn c10_c_s_m8_20_21() { c10_candidate::<32, 8>(64, 20, 21) }
#[kani::proof]
#[kani::unwind(66)]
fn c10_c_s_m8_21_20() { c10_candidate::<32, 8>(64, 21, 20) }
#[kani::proof]
#[kani::unwind(66)]
fn c10_c_s_m8_21_21() { c10_candidate::<32, 8>(64, 21, 21) }
#[kani::proof]
#[kani::unwind(66)]
fn c10_c_s_m8_21_22() { c10_candidate::<32, 8>(64, 21, 22) }
#[kani::proof]
#[kani::unwind(66)]
fn c10_c_s_m8_22_21() { c10_candidate::<32, 8>(64, 22, 21) }
#[kani::proof]
#[kani::unwind(66)]
fn c10_c_s_m8_22_22() { c10_candidate::<32, 8>(64, 22, 22) }
#[kani::proof]
#[kani::unwind(66)]
fn c10_c_s_m8_22_23() { c10_candidate::<32, 8>(64, 22, 23) }
#[kani::proof]
#[kani::unwind(66)]
fn c10_c_s_m8_23_22() { c10_candidate::<32, 8>(64, 23, 22) }
#[kani::proof]
#[kani::unwind(66)]
fn c10_c_s_m8_23_23() { c10_candidate::<32, 8>(64, 23, 23) }
#[kani::proof]
#[kani::unwind(66)]
fn c10_c_s_m8_23_24() { c10_candidate::<32, 8>(64, 23, 24) }
#[kani::proof]
#[kani::unwind(66)]
fn c10_c_s_m8_24_23() { c10_candidate::<32, 8>(64, 24, 23) }
#[kani::proof]
#[kani::unwind(66)]
fn c10_c_s_m8_24_24() { c10_candidate::<32, 8>(64, 24, 24) }
#[kani::proof]
#[kani::unwind(66)]
fn c10_c_s_m8_24_25() { c10_candidate::<32, 8>(64, 24, 25) }
#[kani::proof]
#[kani::unwind(66)]
fn c10_c_s_m8_25_24() { c10_candidate::<32, 8>(64, 25, 24) }
#[kani::proof]
#[kani::unwind(66)]
fn c10_c_s_m8_25_25() { c10_candidate::<32, 8>(64, 25, 25) }
#[kani::proof]
#[kani::unwind(66)]
fn c10_c_s_m8_25_26() { c10_candidate::<32, 8>(64, 25, 26) }
#[kani::proof]
#[kani::unwind(66)]
fn c10_c_s_m8_26_25() { c10_candidate::<32, 8>(64, 26, 25) }
#[kani::proof]
#[kani::unwind(66)]
fn c10_c_s_m8_26_26() { c10_candidate::<32, 8>(64, 26, 26) }
#[kani::proof]
#[kani::unwind(66)]
fn c10_c_s_m8_26_27() { c10_candidate::<32, 8>(64, 26, 27) }
#[kani::proof]
#[kani::unwind(66)]
fn c10_c_s_m8_27_26() { c10_candidate::<32, 8>(64, 27, 26) }
#[kani::proof]
#[kani::unwind(66)]
fn c10_c_s_m8_27_27() { c10_candidate::<32, 8>(64, 27, 27) }
#[kani::proof]
#[kani::unwind(66)]
fn c10_c_s_m8_27_28() { c10_candidate::<32, 8>(64, 27, 28) }
#[kani::proof]
#[kani::unwind(66)]
fn c10_c_s_m8_28_27() { c10_candidate::<32, 8>(64, 28, 27) }
#[kani::proof]
#[kani::unwind(66)]
fn c10_c_s_m8_28_28() { c10_candidate::<32, 8>(64, 28, 28) }
#[kani::proof]
#[kani::unwind(66)]
fn c10_c_s_m8_28_29() { c10_candidate::<32, 8>(64, 28, 29) }
#[kani::proof]
#[kani::unwind(66)]
fn c10_c_s_m8_29_28() { c10_candidate::<32, 8>(64, 29, 28) }
#[kani::proof]
#[kani::unwind(66)]
fn c10_c_s_m8_29_29() { c10_candidate::<32, 8>(64, 29, 29) }
#[kani::proof]
#[kani::unwind(66)]
fn c10_c_s_m8_29_30() { c10_candidate::<32, 8>(64, 29, 30) }
#[kani::proof]
#[kani::unwind(66)]
fn c10_c_s_m8_30_29() { c10_candidate::<32, 8>(64, 30, 29) }
#[kani::proof]
#[kani::unwind(66)]
fn c10_c_s_m8_30_30() { c10_candidate::<32, 8>(64, 30, 30) }
#[kani::proof]
#[kani::unwind(66)]
fn c10_c_s_m8_0_2() { c10_candidate::<32, 8>(64, 0, 2) }
#[kani::proof]
#[kani::unwind(66)]
fn c10_c_s_m8_2_0() { c10_candidate::<32, 8>(64, 2, 0) }
#[kani::proof]
#[kani::unwind(66)]
fn c10_c_s_m8_0_30() { c10_candidate::<32, 8>(64, 0, 30) }
#[kani::proof]
#[kani::unwind(66)]
fn c10_c_s_m8_30_0() { c10_candidate::<32, 8>(64, 30, 0) }
#[kani::proof]
#[kani::unwind(66)]
fn c10_c_s_m8_13_15() { c10_candidate::<32, 8>(64, 13, 15) }
#[kani::proof]
#[kani::unwind(66)]
fn c10_c_s_m8_28_30() { c10_candidate::<32, 8>(64, 28, 30) }
#[kani::proof]
#[kani::unwind(66)]
fn c10_c_l_m8_0_0() { c10_candidate::<64, 8>(64, 0, 0) }
#[kani::proof]
#[kani::unwind(66)]
fn c10_c_l_m8_30_30() { c10_candidate::<64, 8>(64, 30, 30) }
#[kani::proof]
#[kani::unwind(66)]
fn c10_c_l_m8_29_30() { c10_candidate::<64, 8>(64, 29, 30) }
#[kani::proof]
#[kani::unwind(66)]
fn c10_c_l_m8_30_29() { c10_candidate::<64, 8>(64, 30, 29) }

/// symmetry: score(a, b) == score(b, a), and a against itself is 100 (targets from spec masks)
fn c10_symmetry<const M: usize>(alpha: u8) {
    let a = any_hash::<64, 32, true>(M, M);
    let b = any_hash::<64, 32, true>(M, M);
    let mut i = 0;
    while i < M {
        kani::assume(a.blockhash1[i] < alpha && a.blockhash2[i] < alpha && b.blockhash1[i] < alpha && b.blockhash2[i] < alpha);
        i += 1;
    }
    let (ta, tb) = (spec_target_m::<64, 32, M>(&a), spec_target_m::<64, 32, M>(&b));
    assert!(ta.compare(&b) == tb.compare(&a));
    assert!(ta.compare(&a) == 100);
    assert!(ta.is_comparison_candidate(&b) == tb.is_comparison_candidate(&a));
    kani::cover!(ta.compare(&b) > 0 && ta.compare(&b) < 100 && a.log_blocksize != b.log_blocksize);
}
#[kani::proof]
#[kani::unwind(66)]
fn c10_symmetry_m8() { c10_symmetry::<8>(64) }
#[kani::proof]
#[kani::unwind(66)]
fn c10_symmetry_m7() { c10_symmetry::<7>(64) }

/// hash-to-hash entry points (they build their own target / position array):
/// FuzzyHash::compare, LongFuzzyHash::compare, compare_unequal, dual operand.
fn c02_hash_compare<const S2: usize, const M: usize>()
where
    BlockHashSize<S2>: ConstrainedBlockHashSize,
    BlockHashSizes<64, S2>: ConstrainedBlockHashSizes,
{
    let a = any_hash::<64, S2, true>(M, M);
    let b = any_hash::<64, S2, true>(M, M);
    let expect = spec_score::<S2, S2, M>(&a, &b);
    assert!(a.compare(&b) == expect);
    assert!(a.compare(b) == expect);
    if !spec_same_content::<S2, S2, M>(&a, &b) {
        assert!(a.compare_unequal(&b) == expect);
    }
    kani::cover!(expect > 0 && expect < 100);
    kani::cover!(expect == 100);
    kani::cover!(expect > 0 && a.log_blocksize != b.log_blocksize);
}
#[kani::proof]
#[kani::unwind(66)]
fn c02_hash_compare_short_m7() { c02_hash_compare::<32, 7>() }
#[kani::proof]
#[kani::unwind(66)]
fn c02_hash_compare_long_m7() { c02_hash_compare::<64, 7>() }

/// dual operand through AsRef, and From<dual> for the target
#[kani::proof]
#[kani::unwind(66)]
fn c02_dual_operand_m7() {
    use crate::internals::hash_dual::DualFuzzyHash;
    let a = any_hash::<64, 32, true>(7, 7);
    let braw = any_hash::<64, 32, false>(7, 7);
    let bd = DualFuzzyHash::from_raw_form(&braw);
    let bn = braw.normalize();
    let ta = spec_target_m::<64, 32, 7>(&a);
    let expect = spec_score::<32, 32, 7>(&a, &bn);
    assert!(ta.compare(&bd) == expect);
    assert!(ta.compare(bd.as_normalized()) == expect);
    kani::cover!(expect > 0);
}

// =====================================================================================
// C17 / C11: comparison targets carry nothing over
// =====================================================================================

fn dirty_target() -> FuzzyHashCompareTarget {
    FuzzyHashCompareTarget {
        blockhash1: kani::any(),
        blockhash2: kani::any(),
        len_blockhash1: kani::any(),
        len_blockhash2: kani::any(),
        log_blocksize: kani::any(),
    }
}

fn same_target(a: &FuzzyHashCompareTarget, b: &FuzzyHashCompareTarget) -> bool {
    eq_rep(&a.blockhash1, &b.blockhash1) && eq_rep(&a.blockhash2, &b.blockhash2)
        && a.len_blockhash1 == b.len_blockhash1 && a.len_blockhash2 == b.len_blockhash2 && a.log_blocksize == b.log_blocksize
}

/// init_from(h) on an ARBITRARY target == From(h) == the reference target of h;
/// it is valid and equivalent to h only.
fn c17_target_init<const S2: usize, const M: usize>()
where
    BlockHashSize<S2>: ConstrainedBlockHashSize,
    BlockHashSizes<64, S2>: ConstrainedBlockHashSizes,
{
    let h = any_hash::<64, S2, true>(M, M);
    let mut t = dirty_target();
    t.init_from::<64, S2>(&h);
    let expect = spec_target_m::<64, S2, M>(&h);
    assert!(same_target(&t, &expect));
    let fresh = <FuzzyHashCompareTarget as From<&FuzzyHashData<64, S2, true>>>::from(&h);
    let fresh2 = <FuzzyHashCompareTarget as From<FuzzyHashData<64, S2, true>>>::from(h);
    assert!(same_target(&fresh, &expect) && same_target(&fresh2, &expect));
    assert!(t.full_eq(&fresh) == same_target(&t, &fresh));
    assert!(t.log_block_size() == h.log_blocksize && t.block_size() as u64 == 3u64 << h.log_blocksize);
    kani::cover!(h.len_blockhash1 as usize == M && h.len_blockhash2 as usize == M);
    kani::cover!(h.len_blockhash1 == 0);
}
/// the first obligation alone, short block hashes (cheap companion: small formula, quick replay)
fn c17_target_init_lite<const S2: usize, const M: usize>()
where
    BlockHashSize<S2>: ConstrainedBlockHashSize,
    BlockHashSizes<64, S2>: ConstrainedBlockHashSizes,
{
    let h = any_hash::<64, S2, true>(M, M);
    let mut t = dirty_target();
    t.init_from::<64, S2>(&h);
    let expect = spec_target_m::<64, S2, M>(&h);
    assert!(same_target(&t, &expect));
    kani::cover!(h.len_blockhash1 as usize == M && h.len_blockhash2 as usize == M);
    kani::cover!(h.len_blockhash1 == 0 && h.len_blockhash2 > 0);
    kani::cover!(h.len_blockhash2 == 0 && h.len_blockhash1 > 0);
}
#[kani::proof]
#[kani::unwind(66)]
fn c17_target_init_lite_short_m3() { c17_target_init_lite::<32, 3>() }
#[kani::proof]
#[kani::unwind(66)]
fn c17_target_init_lite_long_m3() { c17_target_init_lite::<64, 3>() }
#[kani::proof]
#[kani::unwind(66)]
fn c17_target_init_short_m6() { c17_target_init::<32, 6>() }
#[kani::proof]
#[kani::unwind(66)]
fn c17_target_init_long_m6() { c17_target_init::<64, 6>() }
#[kani::proof]
#[kani::unwind(66)]
fn c17_target_init_short_m12() { c17_target_init::<32, 12>() }

/// On the reference target of h: is_valid, is_equiv(h') <=> h' == h.
fn c17_target_queries<const M: usize>() {
    let h = any_hash::<64, 32, true>(M, M);
    let g = any_hash::<64, 32, true>(M, M);
    let t = spec_target_m::<64, 32, M>(&h);
    assert!(t.is_valid());
    assert!(t.is_equiv(&h));
    assert!(t.is_equiv(&g) == same_obj(&h, &g));
    let c = t.clone();
    assert!(same_target(&c, &t));
    kani::cover!(same_obj(&h, &g) && h.len_blockhash1 as usize == M);
    kani::cover!(!same_obj(&h, &g) && h.log_blocksize == g.log_blocksize && h.len_blockhash1 == g.len_blockhash1);
}
#[kani::proof]
#[kani::unwind(66)]
fn c17_target_queries_m8() { c17_target_queries::<8>() }

/// is_valid / full_eq on ARBITRARY target bits never panic; new() / default() are valid.
#[kani::proof]
#[kani::unwind(66)]
fn c11_target_total() {
    let t = dirty_target();
    let _ = t.is_valid();
    let u = dirty_target();
    assert!(t.full_eq(&u) == same_target(&t, &u));
    let n = FuzzyHashCompareTarget::new();
    let d = FuzzyHashCompareTarget::default();
    assert!(n.is_valid() && same_target(&n, &d));
    assert!(n.is_equiv(&FuzzyHashData::<64, 32, true>::new()));
}

// ---- C14: unchecked entry points agree with the checked ones under their contracts ----
#[cfg(feature = "unchecked")]
#[allow(unsafe_code)]
#[kani::proof]
fn c14_unchecked_score_arithmetic() {
    let l1: u8 = kani::any();
    let l2: u8 = kani::any();
    let d: u32 = kani::any();
    kani::assume(l1 >= 7 && l1 <= 64 && l2 >= 7 && l2 <= 64 && d <= l1 as u32 + l2 as u32 - 14);
    assert!(unsafe { FuzzyHashCompareTarget::raw_score_by_edit_distance_unchecked(l1, l2, d) } == FuzzyHashCompareTarget::raw_score_by_edit_distance(l1, l2, d));
    let n: u8 = kani::any();
    kani::assume(n < 4);
    assert!(unsafe { FuzzyHashCompareTarget::score_cap_on_block_hash_comparison_unchecked(n, l1, l2) } == FuzzyHashCompareTarget::score_cap_on_block_hash_comparison(n, l1, l2));
    kani::cover!(n == 3 && l1 == 64);
}

#[cfg(feature = "unchecked")]
#[allow(unsafe_code)]
fn c14_unchecked_target(na: u8, nb: u8) {
    let (a, b) = any_pair::<32, 32, 7>(64, na, nb);
    let ta = spec_target_m::<64, 32, 7>(&a);
    let same = spec_same_content::<32, 32, 7>(&a, &b);
    unsafe {
        if na == nb {
            assert!(ta.compare_near_eq_unchecked(&b) == ta.compare_near_eq(&b));
            assert!(ta.is_comparison_candidate_near_eq_unchecked(&b) == ta.is_comparison_candidate_near_eq(&b));
            if !same {
                assert!(ta.compare_unequal_near_eq_unchecked(&b) == ta.compare_unequal_near_eq(&b));
            }
        } else if na + 1 == nb {
            assert!(ta.compare_unequal_near_lt_unchecked(&b) == ta.compare_unequal_near_lt(&b));
            assert!(ta.is_comparison_candidate_near_lt_unchecked(&b) == ta.is_comparison_candidate_near_lt(&b));
        } else if nb + 1 == na {
            assert!(ta.compare_unequal_near_gt_unchecked(&b) == ta.compare_unequal_near_gt(&b));
            assert!(ta.is_comparison_candidate_near_gt_unchecked(&b) == ta.is_comparison_candidate_near_gt(&b));
        }
        if !same {
            assert!(ta.compare_unequal_unchecked(&b) == ta.compare_unequal(&b));
            assert!(a.compare_unequal_unchecked(&b) == a.compare_unequal(&b));
        }
    }
    kani::cover!(!same && ta.compare(&b) > 0);
}
#[cfg(feature = "unchecked")]
#[allow(unsafe_code)]
#[kani::proof]
#[kani::unwind(66)]
fn c14_unchecked_target_3_3() { c14_unchecked_target(3, 3) }
#[cfg(feature = "unchecked")]
#[allow(unsafe_code)]
#[kani::proof]
#[kani::unwind(66)]
fn c14_unchecked_target_3_4() { c14_unchecked_target(3, 4) }
#[cfg(feature = "unchecked")]
#[allow(unsafe_code)]
#[kani::proof]
#[kani::unwind(66)]
fn c14_unchecked_target_30_29() { c14_unchecked_target(30, 29) }
