#![cfg(kani)]
//! C20 (score arithmetic, complete domains); C02 / C10 dispatch and laws; C17 / C11 targets.
use super::*;

include!(concat!(env!("CARGO_MANIFEST_DIR"), "/verif_spec/common.rs"));
include!(concat!(env!("CARGO_MANIFEST_DIR"), "/verif_spec/score.rs"));

// ---- C20: scoring helpers on their complete domains --------------------------

/// raw score == ssdeep formula, in 1..=100, no overflow / division by zero:
/// all (l1, l2, d) with 7 <= l <= 64 and d <= l1 + l2 - 14.
#[kani::proof]
fn c20_raw_score_full() {
    let l1: u8 = kani::any();
    let l2: u8 = kani::any();
    let d: u32 = kani::any();
    kani::assume(l1 >= 7 && l1 <= 64 && l2 >= 7 && l2 <= 64);
    kani::assume(d <= l1 as u32 + l2 as u32 - 14);
    let s = FuzzyHashCompareTarget::raw_score_by_edit_distance(l1, l2, d);
    assert!(s == spec_raw_score(l1 as u32, l2 as u32, d));
    assert!(s >= 1 && s <= 100);
    assert!(s >= 11);
    assert!(FuzzyHashCompareTarget::raw_score_by_edit_distance_internal(l1, l2, d) == s);
    assert!(d != 0 || s == 100);
    kani::cover!(s == 11); // the minimum: l1 = l2 = 64, d = 114
    kani::cover!(s == 100 && d > 0);
    kani::cover!(l1 == 64 && l2 == 64 && d == 114);
}

/// score cap: == 2^n * min(l1,l2) below the capping border, 100 from the border
/// upward (public form), and >= 100 there for lengths >= 7: all (n,l1,l2) in 0..=31 x 0..=64^2.
#[kani::proof]
fn c20_score_cap_full() {
    let n: u8 = kani::any();
    let l1: u8 = kani::any();
    let l2: u8 = kani::any();
    kani::assume(n <= 31 && l1 <= 64 && l2 <= 64);
    let c = FuzzyHashCompareTarget::score_cap_on_block_hash_comparison(n, l1, l2);
    if n < 4 {
        assert!(c == spec_score_cap(n as u32, l1 as u32, l2 as u32));
        assert!(FuzzyHashCompareTarget::score_cap_on_block_hash_comparison_internal(n, l1, l2) == c);
    } else {
        assert!(c == 100);
        // the mathematical cap is not binding from the border upward
        if l1 >= 7 && l2 >= 7 {
            assert!(((1u64 << n) * (if l1 < l2 { l1 } else { l2 }) as u64) >= 100);
        }
    }
    assert!(FuzzyHashCompareTarget::LOG_BLOCK_SIZE_CAPPING_BORDER == 4);
    // border is the least such n: at n = 3 the cap can bind (7 * 8 = 56 < 100)
    kani::cover!(n == 3 && l1 == 7 && l2 == 7 && c == 56);
    kani::cover!(n == 31);
    kani::cover!(n == 0 && l1 == 64 && l2 == 64 && c == 64);
}
