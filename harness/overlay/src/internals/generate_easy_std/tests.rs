#![cfg(kani)]
//! C18: stream hashing fails closed (nondeterministic reader).
use super::*;

/// A reader whose every `read` is arbitrary within Read's contract: Ok(n) with
/// n <= min(buf.len(), M) after writing n arbitrary bytes, or an error of arbitrary kind.
struct AnyReader {
    delivered: [u8; 8],
    count: usize,
    reads: usize,
    failed: bool,
}

const M: usize = 2;
const MAX_READS: usize = 3;

impl Read for AnyReader {
    fn read(&mut self, buf: &mut [u8]) -> std::io::Result<usize> {
        self.reads += 1;
        if self.reads > MAX_READS {
            return Ok(0); // end of stream (bounds the harness)
        }
        let fail: bool = kani::any();
        if fail {
            self.failed = true;
            return Err(std::io::Error::from(any_kind()));
        }
        let n: usize = kani::any();
        kani::assume(n <= M && n <= buf.len());
        let mut i = 0;
        while i < M {
            if i < n {
                let b: u8 = kani::any();
                buf[i] = b;
                self.delivered[self.count] = b;
                self.count += 1;
            }
            i += 1;
        }
        Ok(n)
    }
}

fn any_kind() -> std::io::ErrorKind {
    let k: u8 = kani::any();
    match k % 4 {
        0 => std::io::ErrorKind::Interrupted,
        1 => std::io::ErrorKind::UnexpectedEof,
        2 => std::io::ErrorKind::PermissionDenied,
        _ => std::io::ErrorKind::Other,
    }
}

fn run(hint: Option<u64>) {
    let mut rd = AnyReader { delivered: [0; 8], count: 0, reads: 0, failed: false };
    let mut gen = Generator::new();
    if let Some(h) = hint {
        kani::assume(gen.set_fixed_input_size(h).is_ok());
    }
    let r = hash_stream_common(&mut gen, &mut rd);
    // reference: feed the delivered bytes to a fresh generator in one call
    let mut g2 = Generator::new();
    g2.update(&rd.delivered[..rd.count]);
    match r {
        Ok(h) => {
            assert!(!rd.failed);
            assert!(hint.is_none() || hint == Some(rd.count as u64));
            let e = g2.finalize();
            assert!(e.is_ok() && h.full_eq(&e.unwrap()));
            core::mem::forget(h);
        }
        Err(GeneratorOrIOError::IOError(e)) => {
            assert!(rd.failed);
            core::mem::forget(e);
        }
        Err(GeneratorOrIOError::GeneratorError(e)) => {
            // only a hint that disagrees with the delivered byte count can cause this
            assert!(!rd.failed);
            assert!(hint.is_some() && hint != Some(rd.count as u64));
            assert!(e == GeneratorError::FixedSizeMismatch);
        }
    }
    kani::cover!(rd.failed && rd.reads == 3);
    kani::cover!(!rd.failed && rd.count == 6);
    kani::cover!(!rd.failed && rd.count == 0);
}

/// hash_stream_common without a hint (what hash_stream does).
#[kani::proof]
#[kani::unwind(66)]
fn c18_stream_no_hint() {
    run(None)
}

/// with a pre-set hint (what hash_file does with the metadata length).
#[kani::proof]
#[kani::unwind(66)]
fn c18_stream_with_hint() {
    let h: u64 = kani::any();
    kani::assume(h <= 8);
    run(Some(h))
}
