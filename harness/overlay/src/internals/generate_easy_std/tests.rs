#![cfg(kani)]
//! C18: stream hashing fails closed.
//!
//! Unit under test: `hash_stream_common` (the read loop).  Its environment is modelled on
//! both sides: the reader is a scripted nondeterministic `Read`, and the generator's
//! `update` / `finalize` are replaced (Kani stubbing) by a RECORDING model -- `update`
//! appends the bytes it is given to a log, `finalize` returns a hash object that spells out
//! the log (or the size-mismatch error when a declared size disagrees with the log length).
//! That the real `update` / `finalize` compute the right hash of the bytes they are given
//! is C01 / C03; what is decided here is that the read loop hands over exactly the delivered
//! bytes, in order, drains the reader to its end, and lets every I/O error through.
use super::*;
use core::sync::atomic::{AtomicU8, AtomicUsize, Ordering};

const Z: AtomicU8 = AtomicU8::new(0);
static LOG: [AtomicU8; 8] = [Z; 8];
static LOG_N: AtomicUsize = AtomicUsize::new(0);
static HINT: AtomicUsize = AtomicUsize::new(usize::MAX); // usize::MAX = no declared size

fn stub_update<'a>(g: &'a mut Generator, buffer: &[u8]) -> &'a mut Generator {
    let mut i = 0;
    while i < buffer.len() {
        let n = LOG_N.load(Ordering::Relaxed);
        if n < 8 {
            LOG[n].store(buffer[i], Ordering::Relaxed);
        }
        LOG_N.store(n + 1, Ordering::Relaxed);
        i += 1;
    }
    g
}

fn stub_finalize(_g: &Generator) -> Result<RawFuzzyHash, GeneratorError> {
    let n = LOG_N.load(Ordering::Relaxed);
    let hint = HINT.load(Ordering::Relaxed);
    if hint != usize::MAX && hint != n {
        return Err(GeneratorError::FixedSizeMismatch);
    }
    let mut bh = [0u8; 8];
    let mut i = 0;
    while i < 8 {
        if i < n {
            bh[i] = LOG[i].load(Ordering::Relaxed) & 0x3f;
        }
        i += 1;
    }
    Ok(RawFuzzyHash::new_from_internals_near_raw(0, &bh[..if n < 8 { n } else { 8 }], &[]))
}

/// A reader over a FIXED symbolic stream of `total` bytes whose every `read` delivers an
/// arbitrary non-empty chunk (<= M bytes, <= buf.len()) of what remains, returns Ok(0) only
/// at the end of the stream, and fails with an arbitrary error kind at read number
/// `fail_at` (if that read happens).  All choices are made up front, so that the expected
/// outcome does not depend on how many reads the code under test actually performs.
struct ScriptedReader {
    content: [u8; 6],
    total: usize,
    chunk: [usize; 8],
    fail_at: usize, // >= 8: never
    pos: usize,
    reads: usize,
    fired: bool,
}

const M: usize = 3;

impl Read for ScriptedReader {
    fn read(&mut self, buf: &mut [u8]) -> std::io::Result<usize> {
        let i = self.reads;
        self.reads += 1;
        if i == self.fail_at {
            self.fired = true;
            return Err(std::io::Error::from(any_kind()));
        }
        if self.pos >= self.total || i >= 8 {
            return Ok(0);
        }
        let mut n = self.chunk[i];
        if n > self.total - self.pos {
            n = self.total - self.pos;
        }
        if n > buf.len() {
            n = buf.len();
        }
        let mut k = 0;
        while k < M {
            if k < n {
                buf[k] = self.content[self.pos + k];
            }
            k += 1;
        }
        self.pos += n;
        Ok(n)
    }
}

fn any_kind() -> std::io::ErrorKind {
    let k: u8 = kani::any();
    match k % 4 {
        0 => std::io::ErrorKind::Interrupted,
        1 => std::io::ErrorKind::UnexpectedEof,
        2 => std::io::ErrorKind::PermissionDenied,
        _ => std::io::ErrorKind::Other,
    }
}

fn run(hint: Option<usize>) {
    let content: [u8; 6] = kani::any();
    let mut i = 0;
    while i < 6 {
        kani::assume(content[i] < 64);
        i += 1;
    }
    let total: usize = kani::any();
    kani::assume(total <= 6);
    let chunk: [usize; 8] = kani::any();
    let mut i = 0;
    while i < 8 {
        kani::assume(chunk[i] >= 1 && chunk[i] <= M);
        i += 1;
    }
    let fail_at: usize = kani::any();
    kani::assume(fail_at <= 8);
    // number of data reads a draining consumer performs; one more read then sees the end
    let mut data_reads = 0usize;
    let mut served = 0usize;
    let mut i = 0;
    while i < 8 {
        if served < total {
            served += if chunk[i] < total - served { chunk[i] } else { total - served };
            data_reads += 1;
        }
        i += 1;
    }
    let must_fail = fail_at <= data_reads; // the failing read is among the data_reads + 1 reads
    LOG_N.store(0, Ordering::Relaxed);
    HINT.store(match hint { Some(h) => h, None => usize::MAX }, Ordering::Relaxed);
    let mut rd = ScriptedReader { content, total, chunk, fail_at, pos: 0, reads: 0, fired: false };
    let mut gen = Generator::new();
    let r = hash_stream_common(&mut gen, &mut rd);
    let logged = LOG_N.load(Ordering::Relaxed);
    match r {
        Ok(h) => {
            assert!(!must_fail); // a read error at any point => no hash
            assert!(hint.is_none() || hint == Some(total));
            // the hash is that of ALL the bytes of the stream, in order
            assert!(logged == total && h.block_hash_1_len() == total);
            let mut i = 0;
            while i < 6 {
                if i < total {
                    assert!(h.block_hash_1()[i] == content[i]);
                }
                i += 1;
            }
        }
        Err(GeneratorOrIOError::IOError(e)) => {
            assert!(must_fail && rd.fired);
            core::mem::forget(e);
        }
        Err(GeneratorOrIOError::GeneratorError(e)) => {
            // only a declared size that disagrees with the delivered byte count can cause this
            assert!(!must_fail);
            assert!(logged == total);
            assert!(hint.is_some() && hint != Some(total));
            assert!(e == GeneratorError::FixedSizeMismatch);
        }
    }
    kani::cover!(must_fail && fail_at == 2 && total >= 3);
    kani::cover!(!must_fail && total == 6 && data_reads == 6);
    kani::cover!(!must_fail && total == 6 && data_reads == 2);
    kani::cover!(!must_fail && total == 0);
    kani::cover!(must_fail && fail_at == data_reads && total >= 2);
}

/// hash_stream_common without a declared size (what hash_stream does).
#[kani::proof]
#[kani::unwind(66)]
#[kani::stub(crate::internals::generate::Generator::update, stub_update)]
#[kani::stub(crate::internals::generate::Generator::finalize, stub_finalize)]
fn c18_stream_no_hint() {
    run(None)
}

/// with a declared size (what hash_file does with the metadata length).
#[kani::proof]
#[kani::unwind(66)]
#[kani::stub(crate::internals::generate::Generator::update, stub_update)]
#[kani::stub(crate::internals::generate::Generator::finalize, stub_finalize)]
fn c18_stream_with_hint() {
    let h: usize = kani::any();
    kani::assume(h <= 8);
    run(Some(h))
}

/// hash_stream is hash_stream_common on a fresh generator; the real (unstubbed) functions on
/// an EMPTY stream: no byte, no error => the hash of the empty input.
#[kani::proof]
#[kani::unwind(66)]
fn c18_hash_stream_empty_real() {
    let mut rd = ScriptedReader { content: [0; 6], total: 0, chunk: [1; 8], fail_at: 8, pos: 0, reads: 0, fired: false };
    let r = hash_stream(&mut rd);
    match r {
        Ok(h) => {
            assert!(h.block_hash_1_len() == 0 && h.block_hash_2_len() == 0 && h.log_block_size() == 0);
            assert!(rd.reads == 1);
        }
        Err(e) => {
            core::mem::forget(e);
            assert!(false);
        }
    }
    kani::cover!(true);
}
