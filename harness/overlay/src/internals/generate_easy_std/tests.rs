#![cfg(kani)]
//! C18: stream hashing fails closed (scripted nondeterministic reader over a fixed stream).
use super::*;

/// A reader over a FIXED (symbolic) stream of `total` bytes whose every `read` delivers an
/// arbitrary non-empty chunk (<= M bytes, <= buf.len()) of what remains, returns Ok(0) only
/// at the end of the stream, and fails with an arbitrary error kind at read number
/// `fail_at` (if that read happens).  All choices are made up front, so that the expected
/// outcome does not depend on how many reads the code under test actually performs.
struct ScriptedReader {
    content: [u8; 6],
    total: usize,
    chunk: [usize; 8],
    fail_at: usize, // >= 8: never
    pos: usize,
    reads: usize,
    fired: bool,
}

const M: usize = 2;

impl Read for ScriptedReader {
    fn read(&mut self, buf: &mut [u8]) -> std::io::Result<usize> {
        let i = self.reads;
        self.reads += 1;
        if i == self.fail_at {
            self.fired = true;
            return Err(std::io::Error::from(any_kind()));
        }
        if self.pos >= self.total || i >= 8 {
            return Ok(0);
        }
        let mut n = self.chunk[i];
        if n > self.total - self.pos {
            n = self.total - self.pos;
        }
        if n > buf.len() {
            n = buf.len();
        }
        let mut k = 0;
        while k < M {
            if k < n {
                buf[k] = self.content[self.pos + k];
            }
            k += 1;
        }
        self.pos += n;
        Ok(n)
    }
}

fn any_kind() -> std::io::ErrorKind {
    let k: u8 = kani::any();
    match k % 4 {
        0 => std::io::ErrorKind::Interrupted,
        1 => std::io::ErrorKind::UnexpectedEof,
        2 => std::io::ErrorKind::PermissionDenied,
        _ => std::io::ErrorKind::Other,
    }
}

fn run(hint: Option<u64>) {
    // The stream CONTENT is concrete (what is decided here is the read loop: chunking, end of
    // stream, failures, the size hint); the generator itself is C01/C03's subject, and a
    // symbolic content would put its whole piece machinery into every read.
    let content: [u8; 6] = [0x11, 0x22, 0x33, 0x44, 0x55, 0x66];
    let total: usize = kani::any();
    kani::assume(total <= 6);
    let chunk: [usize; 8] = kani::any();
    let mut i = 0;
    while i < 8 {
        kani::assume(chunk[i] >= 1 && chunk[i] <= M);
        i += 1;
    }
    let fail_at: usize = kani::any();
    kani::assume(fail_at <= 8);
    // number of data reads a draining consumer performs, then one more read sees the end
    let mut data_reads = 0usize;
    let mut served = 0usize;
    let mut i = 0;
    while i < 8 {
        if served < total {
            served += if chunk[i] < total - served { chunk[i] } else { total - served };
            data_reads += 1;
        }
        i += 1;
    }
    let must_fail = fail_at <= data_reads; // the failing read is among the data_reads + 1 reads
    let mut rd = ScriptedReader { content, total, chunk, fail_at, pos: 0, reads: 0, fired: false };
    let mut gen = Generator::new();
    if let Some(h) = hint {
        kani::assume(gen.set_fixed_input_size(h).is_ok());
    }
    let r = hash_stream_common(&mut gen, &mut rd);
    // reference: the whole stream fed to a fresh generator in one call
    let mut g2 = Generator::new();
    g2.update(&content[..total]);
    match r {
        Ok(h) => {
            assert!(!must_fail); // a read error at any point => no hash
            assert!(hint.is_none() || hint == Some(total as u64));
            let e = g2.finalize();
            assert!(e.is_ok() && h.full_eq(&e.unwrap())); // hash of ALL delivered bytes
            core::mem::forget(h);
        }
        Err(GeneratorOrIOError::IOError(e)) => {
            assert!(must_fail && rd.fired);
            core::mem::forget(e);
        }
        Err(GeneratorOrIOError::GeneratorError(e)) => {
            // only a hint that disagrees with the delivered byte count can cause this
            assert!(!must_fail);
            assert!(hint.is_some() && hint != Some(total as u64));
            assert!(e == GeneratorError::FixedSizeMismatch);
        }
    }
    kani::cover!(must_fail && fail_at == 2 && total >= 3);
    kani::cover!(!must_fail && total == 6 && data_reads == 6);
    kani::cover!(!must_fail && total == 0);
    kani::cover!(must_fail && fail_at == data_reads && total >= 2);
}

/// hash_stream_common without a hint (what hash_stream does).
#[kani::proof]
#[kani::unwind(66)]
fn c18_stream_no_hint() {
    run(None)
}

/// with a pre-set hint (what hash_file does with the metadata length).
#[kani::proof]
#[kani::unwind(66)]
fn c18_stream_with_hint() {
    let h: u64 = kani::any();
    kani::assume(h <= 8);
    run(Some(h))
}
