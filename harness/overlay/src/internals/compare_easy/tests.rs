#![cfg(kani)]
//! C02: the string comparison function is parse(lhs), parse(rhs), LongFuzzyHash::compare.
use super::*;

/// compare(&str, &str) on two short texts: Err side/kind mirrors the parser's result,
/// Ok(score) equals the object-level comparison of the parsed hashes.
#[kani::proof]
#[kani::unwind(66)]
fn c02_str_compare_wiring() {
    let a: [u8; 5] = kani::any();
    let b: [u8; 5] = kani::any();
    let (na, nb): (usize, usize) = (kani::any(), kani::any());
    kani::assume(na <= 5 && nb <= 5);
    let mut i = 0;
    while i < 5 {
        kani::assume(a[i] < 128 && b[i] < 128); // ASCII so that the slices are valid UTF-8
        i += 1;
    }
    let (sa, sb) = (core::str::from_utf8(&a[..na]), core::str::from_utf8(&b[..nb]));
    kani::assume(sa.is_ok() && sb.is_ok());
    let (sa, sb) = (sa.unwrap(), sb.unwrap());
    let pa = LongFuzzyHash::from_bytes(&a[..na]);
    let pb = LongFuzzyHash::from_bytes(&b[..nb]);
    match compare(sa, sb) {
        Ok(score) => {
            assert!(pa.is_ok() && pb.is_ok());
            assert!(score == pa.unwrap().compare(pb.unwrap()));
            assert!(score <= 100);
        }
        Err(e) => {
            if e.side() == ParseErrorSide::Left {
                assert!(pa.is_err() && pa.unwrap_err() == e.1);
            } else {
                assert!(pa.is_ok() && pb.is_err() && pb.unwrap_err() == e.1);
            }
            assert!(e.kind() == e.1.kind() && e.origin() == e.1.origin() && e.offset() == e.1.offset());
        }
    }
    kani::cover!(pa.is_ok() && pb.is_ok());
    kani::cover!(pa.is_ok() && pb.is_err());
}
