#![cfg(kani)]
//! C20 / C13: bit utilities on their complete domains.
use super::*;

#[kani::proof]
fn c20_u64_lsb_ones_full() {
    let n: u32 = kani::any();
    kani::assume(n <= 64);
    let v = u64_lsb_ones(n);
    assert!(v.count_ones() == n);
    assert!(v.trailing_ones() == n);
    kani::cover!(n == 64);
    kani::cover!(n == 0);
}

#[kani::proof]
fn c20_u64_ilog2_full() {
    let v: u64 = kani::any();
    kani::assume(v != 0);
    let l = u64_ilog2(v);
    assert!(l < 64);
    assert!((v >> l) == 1);
    kani::cover!(l == 63);
    kani::cover!(l == 0);
}
