#![cfg(kani)]
//! C20 / C13: bit utilities on their complete domains.
use super::*;

#[kani::proof]
fn c20_u64_lsb_ones_full() {
    let n: u32 = kani::any();
    kani::assume(n <= 64);
    let v = u64_lsb_ones(n);
    assert!(v.count_ones() == n);
    assert!(v.trailing_ones() == n);
    kani::cover!(n == 64);
    kani::cover!(n == 0);
}

#[kani::proof]
fn c20_u64_ilog2_full() {
    let v: u64 = kani::any();
    kani::assume(v != 0);
    let l = u64_ilog2(v);
    assert!(l < 64);
    assert!((v >> l) == 1);
    kani::cover!(l == 63);
    kani::cover!(l == 0);
}

// sanity of the tool chain itself: boolean comparison operators on symbolic bools
#[kani::proof]
fn cx_bool_ops() {
    let a: bool = kani::any();
    let b: bool = kani::any();
    kani::assert((a != b) == ((a && !b) || (!a && b)), "DBG ne");
    kani::assert((a == b) == ((a && b) || (!a && !b)), "DBG eq");
    kani::assert((a <= b) == (!a || b), "DBG le");
    kani::assert((a < b) == (!a && b), "DBG lt");
    let x: u8 = kani::any();
    let y: usize = kani::any();
    kani::assert(((x == 0xff) != (y < 32)) == ((x == 0xff && !(y < 32)) || (x != 0xff && y < 32)), "DBG ne2");
}

// tool-chain probe: memcpy from an element of an array of structs selected by a symbolic index
#[derive(Clone, Copy)]
struct CxS {
    idx: usize,
    bh: [u8; 64],
    a: u8,
    b: u8,
    c: u8,
}
#[kani::proof]
#[kani::unwind(66)]
fn cx_memcpy_symbolic_index() {
    let mut arr = [CxS { idx: 0, bh: [0xff; 64], a: 0, b: 0, c: 0 }; 31];
    arr[4].bh = kani::any();
    arr[5].bh = kani::any();
    arr[4].a = kani::any();
    arr[5].a = kani::any();
    let i: usize = kani::any();
    kani::assume(i == 4 || i == 5);
    let e = &arr[i];
    let mut dst = [0u8; 32];
    if e.a != 0xff {
        let sz = 32;
        dst[0..(sz - 1)].clone_from_slice(&e.bh[0..(sz - 1)]);
        dst[sz - 1] = e.b;
    } else {
        let sz = e.idx;
        kani::assume(sz <= 31);
        dst[0..sz].clone_from_slice(&e.bh[0..sz]);
    }
    kani::assert(e.a == 0xff || dst[0] == e.bh[0], "DBG memcpy symbolic index");
    kani::assert(e.a == 0xff || dst[30] == e.bh[30], "DBG memcpy symbolic index 30");
}
