#![cfg(kani)]
//! Harness-only constructor (this module is a child of partial_fnv and sees its private field).
use super::PartialFNVHash;

/// A hash object with an arbitrary internal byte.
pub(crate) fn verif_make(v: u8) -> PartialFNVHash {
    PartialFNVHash(v)
}
pub(crate) fn verif_raw(h: &PartialFNVHash) -> u8 {
    h.0
}
