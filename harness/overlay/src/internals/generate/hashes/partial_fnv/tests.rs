#![cfg(kani)]
//! C19 (FNV half): the partial FNV hash equals the low six bits of 32-bit FNV-1.
use super::*;

/// For ALL 2^32 full FNV-1 states and all 256 bytes: one step of the partial hash started
/// at the low 6 bits equals the low 6 bits of the 32-bit step h' = (h * 0x01000193) ^ c.
#[kani::proof]
fn c19_fnv_step_full_domain() {
    let full: u32 = kani::any();
    let c: u8 = kani::any();
    let next_full = full.wrapping_mul(0x0100_0193) ^ (c as u32);
    let mut p = test_utils::verif_make((full & 0x3f) as u8);
    p.update_by_byte(c);
    assert!(p.value() as u32 == next_full & 0x3f);
    assert!(p.value() < 64);
    kani::cover!(p.value() == 63);
    kani::cover!(full > 0x8000_0000 && c > 0x80);
}

/// Under opt-reduce-fnv-table the internal byte keeps 8 bits: any internal byte works.
#[kani::proof]
fn c19_fnv_step_any_internal_byte() {
    let full: u32 = kani::any();
    let c: u8 = kani::any();
    let next_full = full.wrapping_mul(0x0100_0193) ^ (c as u32);
    let raw: u8 = kani::any();
    // default build: the internal byte is the 6-bit value; reduced-table build: any byte
    // whose low 6 bits agree
    kani::assume(raw & 0x3f == (full & 0x3f) as u8);
    kani::assume(cfg!(feature = "opt-reduce-fnv-table") || raw < 64);
    let mut p = test_utils::verif_make(raw);
    p.update_by_byte(c);
    assert!(p.value() as u32 == next_full & 0x3f);
    kani::cover!(raw >= 64 || !cfg!(feature = "opt-reduce-fnv-table"));
}

/// Initial state: low six bits of 0x28021967.
#[kani::proof]
fn c19_fnv_init() {
    let p = PartialFNVHash::new();
    assert!(p.value() as u32 == 0x2802_1967 & 0x3f);
    assert!(p.value() == 0x27);
    assert!(PartialFNVHash::default().value() == 0x27);
    kani::cover!(true);
}

/// slice, iterator, single-byte and += forms agree (from an arbitrary state, <= 3 bytes).
#[kani::proof]
#[kani::unwind(5)]
fn c19_fnv_forms_agree() {
    let raw: u8 = kani::any();
    kani::assume(cfg!(feature = "opt-reduce-fnv-table") || raw < 64);
    let start = test_utils::verif_make(raw);
    let buf: [u8; 3] = kani::any();
    let n: usize = kani::any();
    kani::assume(n <= 3);
    let mut a = start;
    let mut i = 0;
    while i < 3 {
        if i < n {
            a.update_by_byte(buf[i]);
        }
        i += 1;
    }
    let mut b = start;
    b.update(&buf[..n]);
    let mut c = start;
    c.update_by_iter(buf[..n].iter().copied());
    let mut d = start;
    d += &buf[..n];
    let mut e = start;
    let mut f = start;
    if n == 3 {
        e += &buf;
        f += buf[0];
        f += buf[1];
        f += buf[2];
        assert!(e.value() == a.value() && f.value() == a.value());
    }
    assert!(b.value() == a.value() && c.value() == a.value() && d.value() == a.value());
    assert!(b == a && c == a && d == a);
    kani::cover!(n == 3);
    kani::cover!(n == 0);
}
