#![cfg(kani)]
//! C19 (rolling half): forms agree; small-scope BMC of the value against the definition.
//! (The inductive step for arbitrary histories is an SMT obligation over the MIR, see
//! engine/mir2smt.py: CBMC does not finish it.)
use super::*;

include!(concat!(env!("CARGO_MANIFEST_DIR"), "/verif_spec/ctph.rs"));

fn any_state() -> RollingHash {
    let idx: u32 = kani::any();
    kani::assume(idx < 7);
    test_utils::verif_make(idx, kani::any(), kani::any(), kani::any(), kani::any())
}

/// slice, iterator, single-byte and += forms agree from an ARBITRARY state (<= 3 bytes).
#[kani::proof]
#[kani::unwind(9)]
fn c19_roll_forms_agree() {
    let start = any_state();
    let buf: [u8; 3] = kani::any();
    let n: usize = kani::any();
    kani::assume(n <= 3);
    let mut a = start;
    let mut i = 0;
    while i < 3 {
        if i < n {
            a.update_by_byte(buf[i]);
        }
        i += 1;
    }
    let mut b = start;
    b.update(&buf[..n]);
    let mut c = start;
    c.update_by_iter(buf[..n].iter().copied());
    let mut d = start;
    d += &buf[..n];
    assert!(b == a && c == a && d == a);
    assert!(b.value() == a.value());
    if n == 3 {
        let mut e = start;
        e += &buf;
        let mut f = start;
        f += buf[0];
        f += buf[1];
        f += buf[2];
        assert!(e == a && f == a);
    }
    kani::cover!(n == 3);
}

/// slice / += slice forms == byte-wise feeding from an ARBITRARY state for slices of up to
/// 9 bytes (longer than the 7-byte window, so that any window-skipping shortcut is exercised)
#[kani::proof]
#[kani::unwind(11)]
fn c19_roll_slice_forms_l9() {
    let start = any_state();
    let buf: [u8; 9] = kani::any();
    let n: usize = kani::any();
    kani::assume(n <= 9);
    let mut a = start;
    let mut i = 0;
    while i < 9 {
        if i < n {
            a.update_by_byte(buf[i]);
        }
        i += 1;
    }
    let mut b = start;
    b.update(&buf[..n]);
    let mut c = start;
    c.update_by_iter(buf[..n].iter().copied());
    let mut d = start;
    d += &buf[..n];
    let (fa, fb, fc, fd) = (test_utils::verif_fields(&a), test_utils::verif_fields(&b), test_utils::verif_fields(&c), test_utils::verif_fields(&d));
    assert!(fa.0 == fb.0 && fa.1 == fb.1 && fa.2 == fb.2 && fa.3 == fb.3);
    assert!(fa.0 == fc.0 && fa.1 == fc.1 && fa.2 == fc.2 && fa.3 == fc.3);
    assert!(fa.0 == fd.0 && fa.1 == fd.1 && fa.2 == fd.2 && fa.3 == fd.3);
    let mut k = 0;
    while k < 7 {
        assert!(fa.4[k] == fb.4[k] && fa.4[k] == fc.4[k] && fa.4[k] == fd.4[k]);
        k += 1;
    }
    assert!(a.value() == b.value());
    if n == 9 {
        let mut e = start;
        e += &buf;
        assert!(e.value() == a.value() && test_utils::verif_fields(&e).2 == fa.2);
    }
    kani::cover!(n == 9);
    kani::cover!(n == 8);
}

/// the slice form on a buffer of the FIXED length 8 (one more than the window) from an arbitrary
/// state: same fields as eight single-byte updates.  (Cheap companion of the query above: no
/// symbolic length.)
fn c19_roll_slice_fixed8(field: u8) {
    let start = any_state();
    let buf: [u8; 8] = kani::any();
    let mut a = start;
    let mut i = 0;
    while i < 8 {
        a.update_by_byte(buf[i]);
        i += 1;
    }
    let mut b = start;
    b.update(&buf);
    let (fa, fb) = (test_utils::verif_fields(&a), test_utils::verif_fields(&b));
    // one field per query: with all fields in one query a change that breaks one field and makes
    // the proof of another hard would time out instead of returning its counterexample
    match field {
        0 => assert!(fa.0 == fb.0),
        1 => assert!(fa.1 == fb.1),
        2 => assert!(fa.2 == fb.2),
        3 => assert!(fa.3 == fb.3),
        _ => {
            let mut k = 0;
            while k < 7 {
                assert!(fa.4[k] == fb.4[k]);
                k += 1;
            }
        }
    }
    kani::cover!(fa.0 != 0);
}
#[kani::proof]
#[kani::unwind(11)]
fn c19_roll_slice_fixed8_f0() { c19_roll_slice_fixed8(0) }
#[kani::proof]
#[kani::unwind(11)]
fn c19_roll_slice_fixed8_f1() { c19_roll_slice_fixed8(1) }
#[kani::proof]
#[kani::unwind(11)]
fn c19_roll_slice_fixed8_f2() { c19_roll_slice_fixed8(2) }
#[kani::proof]
#[kani::unwind(11)]
fn c19_roll_slice_fixed8_f3() { c19_roll_slice_fixed8(3) }
#[kani::proof]
#[kani::unwind(11)]
fn c19_roll_slice_fixed8_f4() { c19_roll_slice_fixed8(4) }

/// From new(): after k <= K bytes the value equals the definition over the trailing window
/// (zero padded), i.e. depends only on the last seven bytes.  (Base case of the inductive
/// SMT obligation; CBMC is slow on this arithmetic, hence the ladder of K.)
fn roll_value_from_new<const K: usize>() {
    let buf: [u8; K] = kani::any();
    let n: usize = kani::any();
    kani::assume(n <= K);
    let mut r = RollingHash::new();
    r.update(&buf[..n]);
    let mut w = [0u8; 7];
    let mut k = 0;
    while k < 7 {
        // w[k] = byte at position n - 7 + k (0 if before the start)
        if n + k >= 7 && n + k - 7 < K {
            w[k] = buf[n + k - 7];
        }
        k += 1;
    }
    assert!(r.value() == spec_roll_value(&w));
    assert!(RollingHash::default() == RollingHash::new());
    assert!(RollingHash::new().value() == 0);
    kani::cover!(n == K);
    kani::cover!(n == K && r.value() == u32::MAX || K < 7);
}
#[kani::proof]
#[kani::unwind(11)]
fn c19_roll_value_from_new_k2() { roll_value_from_new::<2>() }
#[kani::proof]
#[kani::unwind(11)]
fn c19_roll_value_from_new_k4() { roll_value_from_new::<4>() }
#[kani::proof]
#[kani::unwind(11)]
fn c19_roll_value_from_new_k9() { roll_value_from_new::<9>() }
