#![cfg(kani)]
//! Harness-only constructor (this module is a child of rolling_hash and sees its private fields).
use super::RollingHash;

pub(crate) fn verif_make(index: u32, h1: u32, h2: u32, h3: u32, window: [u8; 7]) -> RollingHash {
    RollingHash { index, h1, h2, h3, window }
}
pub(crate) fn verif_fields(r: &RollingHash) -> (u32, u32, u32, u32, [u8; 7]) {
    (r.index, r.h1, r.h2, r.h3, r.window)
}
