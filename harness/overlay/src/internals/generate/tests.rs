#![cfg(kani)]
//! Generator: C01 (== pure CTPH), C03 (feeding forms), C12 (hint / reset / errors),
//! C13 (size limits, block-size choice).
//!
//! Inductive formulation: the pre-state is an ARBITRARY generator satisfying the
//! representation invariant `inv`; the pure-CTPH state S = alpha(G) is read off it;
//! one real operation is executed; `inv` must hold again and alpha(G') must equal the
//! pure step of S on every level that can still matter.  The rolling hash is treated as an
//! opaque component here (its value after the update is handed to the pure step); that the
//! value is the stated function of the last seven bytes is C19's obligation.
use super::*;
use crate::internals::generate::hashes::{partial_fnv, rolling_hash};

include!(concat!(env!("CARGO_MANIFEST_DIR"), "/verif_spec/ctph.rs"));

const NIL: u8 = BLOCKHASH_CHAR_NIL;

fn any_fnv() -> PartialFNVHash {
    let v: u8 = kani::any();
    kani::assume(cfg!(feature = "opt-reduce-fnv-table") || v < 64);
    partial_fnv::test_utils::verif_make(v)
}

fn any_roll() -> RollingHash {
    let idx: u32 = kani::any();
    kani::assume(idx < 7);
    rolling_hash::test_utils::verif_make(idx, kani::any(), kani::any(), kani::any(), kani::any())
}

fn any_ctx() -> BlockHashContext {
    let idx: usize = kani::any();
    kani::assume(idx < 64);
    BlockHashContext {
        blockhash_index: idx,
        blockhash: kani::any(),
        blockhash_ch_half: kani::any(),
        h_full: any_fnv(),
        h_half: any_fnv(),
    }
}

/// number of pieces a context holds (0..=64)
fn cnt(c: &BlockHashContext) -> usize {
    c.blockhash_index + if c.blockhash[63] != NIL { 1 } else { 0 }
}

/// per-context representation invariant
fn ctx_inv(c: &BlockHashContext) -> bool {
    if c.blockhash_index >= 64 {
        return false;
    }
    let mut ok = true;
    // stored pieces are symbols
    let mut i = 0;
    while i < 63 {
        if i < c.blockhash_index && c.blockhash[i] >= 64 {
            ok = false;
        }
        i += 1;
    }
    // the 64th piece exists only at index 63 and is a symbol
    if c.blockhash[63] != NIL && (c.blockhash_index != 63 || c.blockhash[63] >= 64) {
        ok = false;
    }
    // truncated form's last character exists exactly from 32 pieces on
    if (c.blockhash_ch_half == NIL) != (c.blockhash_index < 32) {
        ok = false;
    }
    if c.blockhash_ch_half != NIL && c.blockhash_ch_half >= 64 {
        ok = false;
    }
    // below 32 pieces the two FNV states are reset together, so they agree
    if c.blockhash_index < 32 && c.h_half.value() != c.h_full.value() {
        ok = false;
    }
    ok
}

/// representation invariant of the generator for the active range [st, en)
fn inv(g: &GeneratorInnerData, st: usize, en: usize) -> bool {
    if !(g.bhidx_start == st && g.bhidx_end == en && st < en && en <= 31) {
        return false;
    }
    if g.bhidx_end_limit > 30 || en > g.bhidx_end_limit + 1 {
        return false;
    }
    if g.roll_mask != ((1u64 << st) - 1) as u32 || g.elim_border != (192u64 << st) {
        return false;
    }
    let mut ok = true;
    let mut j = 0;
    while j < 31 {
        if j >= st && j < en {
            if !ctx_inv(&g.bh_context[j]) {
                ok = false;
            }
            if j + 1 < en {
                // piece counts are non-increasing in the level, and positive below the top
                if cnt(&g.bh_context[j]) < cnt(&g.bh_context[j + 1]) || g.bh_context[j].blockhash_index == 0 {
                    ok = false;
                }
            }
        }
        j += 1;
    }
    // a forkable top level has no piece yet
    if en <= g.bhidx_end_limit && g.bh_context[en - 1].blockhash_index != 0 {
        ok = false;
    }
    // the last-piece hash
    if g.is_last {
        if !(g.bhidx_end_limit == 30 && en == 31 && g.bh_context[30].blockhash_index >= 1) {
            ok = false;
        }
    } else if g.bhidx_end_limit == 30 && en == 31 && g.bh_context[30].blockhash_index != 0 {
        ok = false;
    }
    ok
}

/// Arbitrary generator with active range [st, en): the contexts inside the range are
/// symbolic, the others hold arbitrary stale data as well.
fn any_gen(st: usize, en: usize) -> GeneratorInnerData {
    let mut ctxs = [BlockHashContext::new(); 31];
    let mut j = 0;
    while j < 31 {
        // stale contents outside the range matter only at en (the next fork target)
        if (j >= st && j < en) || j == en {
            ctxs[j] = any_ctx();
        }
        j += 1;
    }
    GeneratorInnerData {
        input_size: kani::any(),
        fixed_size: kani::any(),
        elim_border: kani::any(),
        bhidx_start: st,
        bhidx_end: en,
        bhidx_end_limit: kani::any(),
        roll_mask: kani::any(),
        roll_hash: any_roll(),
        bh_context: ctxs,
        h_last: any_fnv(),
        is_last: kani::any(),
    }
}

/// pure level read off a tracked context
fn alpha_ctx(c: &BlockHashContext) -> SpecLevel {
    let mut p = [SPEC_NIL; 64];
    let mut i = 0;
    while i < 63 {
        if i < c.blockhash_index {
            p[i] = c.blockhash[i];
        }
        i += 1;
    }
    p[63] = c.blockhash[63];
    SpecLevel { n: c.blockhash_index, p, h: c.h_full.value(), hh: c.h_half.value(), chh: c.blockhash_ch_half }
}

/// does an untracked level j >= en still matter for any future digest?
fn relevant_untracked(g: &GeneratorInnerData, j: usize) -> bool {
    j >= g.bhidx_end && (j <= g.bhidx_end_limit || (j == 31 && g.bhidx_end_limit == 30))
}

/// alpha(G): the pure state that corresponds to a generator with the CONCRETE active range
/// [st, en).  Levels st..en are read off the contexts.  Every level >= en that has not been
/// forked yet is in one and the same pure state `u` (no piece, FNV states of the whole
/// input so far = those of the top context, which has no piece either); the pseudo level 31
/// differs from `u` only once the last-piece hash is being maintained.
struct Pure {
    lev: [SpecLevel; 31],
    u: SpecLevel,
    l31: SpecLevel,
}

fn alpha(g: &GeneratorInnerData, st: usize, en: usize) -> Pure {
    let mut lev = [SpecLevel::new(); 31];
    let mut j = 0;
    while j < 31 {
        if j >= st && j < en {
            lev[j] = alpha_ctx(&g.bh_context[j]);
        }
        j += 1;
    }
    let top = &g.bh_context[en - 1];
    let mut u = SpecLevel::new();
    u.h = top.h_full.value();
    u.hh = top.h_half.value();
    let mut l31 = SpecLevel::new();
    l31.h = if g.is_last { g.h_last.value() } else { top.h_full.value() };
    // a level without pieces has never reset either FNV state: they agree
    l31.hh = l31.h;
    Pure { lev, u, l31 }
}

/// does the real context hold exactly the pure level?
fn ctx_is(c: &BlockHashContext, s: &SpecLevel) -> bool {
    let mut same = c.blockhash_index == s.n && c.h_full.value() == s.h && c.h_half.value() == s.hh
        && c.blockhash_ch_half == s.chh && c.blockhash[63] == s.p[63];
    let mut i = 0;
    while i < 63 {
        if i < s.n && c.blockhash[i] != s.p[i] {
            same = false;
        }
        i += 1;
    }
    same
}

fn triggers(depth: Option<u32>, j: usize) -> bool {
    match depth {
        Some(d) => j < 31 && (j as u32) <= d,
        None => false,
    }
}

/// One pure step for input byte c whose post-update rolling value is rv, followed by the
/// comparison with the real post-state g1 (whose range may have grown on both sides):
/// alpha(G') == step(alpha(G)) on every level that can still matter.
fn step_and_compare(pre: &Pure, st: usize, en: usize, c: u8, rv: u32, g1: &GeneratorInnerData) -> bool {
    let depth = spec_trigger_depth_fast(rv);
    // the two possible successors of a not-yet-forked level, and of the pseudo level
    let mut u_plain = pre.u;
    u_plain.absorb(c);
    let mut u_trig = u_plain;
    u_trig.end_piece();
    let mut l31 = pre.l31;
    l31.absorb(c);
    let (st1, en1) = (g1.bhidx_start, g1.bhidx_end);
    let top1 = &g1.bh_context[en1 - 1];
    let mut ok = true;
    let mut j = 0;
    while j < 31 {
        if j >= st {
            if j >= st1 && j < en1 {
                // tracked after the step
                let mut want = if j < en { pre.lev[j] } else { u_plain };
                if j < en {
                    want.absorb(c);
                    if triggers(depth, j) {
                        want.end_piece();
                    }
                } else if triggers(depth, j) {
                    want = u_trig;
                }
                if !ctx_is(&g1.bh_context[j], &want) {
                    ok = false;
                }
            } else if j >= en1 && relevant_untracked(g1, j) {
                // still not forked: the pure level must not have ended a piece, and its FNV
                // states are those of the new top context
                if triggers(depth, j) || top1.h_full.value() != u_plain.h || top1.h_half.value() != u_plain.hh {
                    ok = false;
                }
            }
        }
        j += 1;
    }
    // pseudo level 31 (never ends a piece)
    if g1.bhidx_end_limit == 30 {
        let have = if g1.is_last { g1.h_last.value() } else { top1.h_full.value() };
        if have != l31.h {
            ok = false;
        }
    }
    ok
}

/// invariant of a post-state whose range is symbolic but known to start at or after `lo`
fn inv_post(g: &GeneratorInnerData, lo: usize) -> bool {
    let (st, en) = (g.bhidx_start, g.bhidx_end);
    if !(lo <= st && st < en && en <= 31) {
        return false;
    }
    if g.bhidx_end_limit > 30 || en > g.bhidx_end_limit + 1 {
        return false;
    }
    if g.roll_mask != ((1u64 << st) - 1) as u32 || g.elim_border != (192u64 << st) {
        return false;
    }
    let mut ok = true;
    let mut j = 0;
    while j < 31 {
        if j >= lo && j >= st && j < en {
            if !ctx_inv(&g.bh_context[j]) {
                ok = false;
            }
            if j + 1 < en && (cnt(&g.bh_context[j]) < cnt(&g.bh_context[j + 1]) || g.bh_context[j].blockhash_index == 0) {
                ok = false;
            }
        }
        j += 1;
    }
    let top = &g.bh_context[en - 1];
    if en <= g.bhidx_end_limit && top.blockhash_index != 0 {
        ok = false;
    }
    if g.is_last {
        if !(g.bhidx_end_limit == 30 && en == 31 && g.bh_context[30].blockhash_index >= 1) {
            ok = false;
        }
    } else if g.bhidx_end_limit == 30 && en == 31 && g.bh_context[30].blockhash_index != 0 {
        ok = false;
    }
    ok
}

/// The trigger depth used by the pure step equals the definition "rolling hash + 1 is a
/// multiple of 3 * 2^j", for ALL 2^32 rolling values and all 31 levels.
#[kani::proof]
#[kani::unwind(33)]
fn c01_trigger_depth_lemma() {
    let rv: u32 = kani::any();
    let fast = spec_trigger_depth_fast(rv);
    assert!(fast == spec_trigger_depth(rv));
    let mut j = 0u32;
    while j < 31 {
        let by_def = spec_trigger_def(rv, j);
        let by_depth = match fast {
            Some(d) => j <= d,
            None => false,
        };
        assert!(by_def == by_depth);
        j += 1;
    }
    kani::cover!(fast == Some(30));
    kani::cover!(fast == Some(0));
    kani::cover!(rv == u32::MAX && fast.is_none());
}

// =====================================================================================
// O1: base case and reset
// =====================================================================================

/// Generator::new() satisfies the invariant and corresponds to the initial pure state;
/// reset() of a COMPLETELY ARBITRARY generator gives a state that is indistinguishable
/// from new() for every future history (same invariant, same alpha on all levels that
/// matter: stale contexts >= bhidx_end and a stale h_last are exactly what alpha ignores).
/// alpha(G) is the initial pure state: every level without a piece and with the initial
/// FNV states (stale contexts >= bhidx_end and a stale h_last are exactly what alpha ignores)
fn is_initial(g: &GeneratorInnerData) -> bool {
    let p = alpha(g, 0, 1);
    let z = SpecLevel::new();
    let same = |a: &SpecLevel| a.n == 0 && a.h == z.h && a.hh == z.hh && a.chh == SPEC_NIL && a.p[63] == SPEC_NIL;
    same(&p.lev[0]) && same(&p.u) && same(&p.l31) && !g.is_last && g.bhidx_end_limit == 30
}

#[kani::proof]
#[kani::unwind(66)]
fn c12_new_and_reset() {
    let fresh = Generator::new();
    assert!(inv(&fresh.0, 0, 1));
    assert!(is_initial(&fresh.0));
    assert!(fresh.input_size() == 0 && fresh.0.fixed_size.is_none() && !fresh.0.is_last);
    assert!(Generator::default().0 == fresh.0);
    // arbitrary garbage, then reset
    let st: usize = kani::any();
    let en: usize = kani::any();
    let mut g = Generator(any_gen(0, 1));
    g.0.bhidx_start = st;
    g.0.bhidx_end = en;
    g.0.bh_context[0] = any_ctx();
    g.0.bh_context[1] = any_ctx();
    g.0.bh_context[30] = any_ctx();
    g.reset();
    assert!(inv(&g.0, 0, 1));
    assert!(is_initial(&g.0));
    assert!(g.input_size() == 0 && g.0.fixed_size.is_none() && !g.0.is_last);
    assert!(g.0.bhidx_end_limit == 30 && g.0.roll_hash == RollingHash::new());
    assert!(g.may_warn_about_small_input_size());
    kani::cover!(st > 5 && en < 3);
}

// =====================================================================================
// O2: one byte from an arbitrary invariant state (per concrete active range)
// =====================================================================================

/// ghost assumptions tying the size counters to the eventual total size F
fn size_ok(g: &GeneratorInnerData, f: u64) -> bool {
    // the counter may be ahead of the bytes processed (slice form) but never beyond F;
    // a hint, if present, is the eventual size
    g.input_size <= f && (g.fixed_size.is_none() || g.fixed_size == Some(f))
}

/// eliminated levels are justified: the final size exceeds their border and the new lowest
/// level already has 32 pieces
fn elim_ok(g: &GeneratorInnerData, f: u64) -> bool {
    g.bhidx_start == 0 || ((192u64 << (g.bhidx_start - 1)) < f && g.bh_context[g.bhidx_start].blockhash_index >= 32)
}

/// the fork limit is not below what F needs
fn limit_ok(g: &GeneratorInnerData, f: u64) -> bool {
    let need = spec_initial_level(f) + 1;
    g.bhidx_end_limit >= (if need > 30 { 30 } else { need }) || f > SPEC_MAX_SIZE
}

fn step_byte(st: usize, en: usize) {
    let g0 = any_gen(st, en);
    kani::assume(inv(&g0, st, en));
    let f: u64 = kani::any();
    kani::assume(size_ok(&g0, f) && elim_ok(&g0, f) && g0.input_size < f);
    let pre = alpha(&g0, st, en);
    let c: u8 = kani::any();
    // the rolling value after this byte (opaque component, see module comment)
    let mut r = g0.roll_hash;
    r.update_by_byte(c);
    let rv = r.value();
    let mut gen = Generator(g0);
    gen.update_by_byte(c);
    let g1 = &gen.0;
    let (st1, en1) = (g1.bhidx_start, g1.bhidx_end);
    assert!(st1 >= st && en1 >= en && st1 < en1 && en1 <= 31);
    assert!(inv_post(g1, st));
    assert!(step_and_compare(&pre, st, en, c, rv, g1));
    assert!(g1.input_size == g0.input_size + 1 && g1.fixed_size == g0.fixed_size && g1.bhidx_end_limit == g0.bhidx_end_limit);
    assert!(size_ok(g1, f) && elim_ok(g1, f));
    assert!(g1.roll_hash == r);
    kani::cover!(st1 > st || en - st < 2);
    kani::cover!(en1 > en || en == 31 || g0.bhidx_end_limit < en);
    kani::cover!(g1.is_last && !g0.is_last || en < 31 || g0.bhidx_end_limit < 30 || (st + 1 == en && st > 0));
    kani::cover!(g1.bh_context[st].blockhash_index == 63 && g0.bh_context[st].blockhash_index == 62);
}

/// bit-for-bit equality of two generator states on everything that is ever read again
/// (contexts outside the active range are dead data)
fn gen_eq(a: &GeneratorInnerData, b: &GeneratorInnerData, lo: usize) -> bool {
    let mut same = a.input_size == b.input_size && a.fixed_size == b.fixed_size && a.elim_border == b.elim_border
        && a.bhidx_start == b.bhidx_start && a.bhidx_end == b.bhidx_end && a.bhidx_end_limit == b.bhidx_end_limit
        && a.roll_mask == b.roll_mask && a.is_last == b.is_last && a.h_last.value() == b.h_last.value();
    let (ra, rb) = (rolling_hash::test_utils::verif_fields(&a.roll_hash), rolling_hash::test_utils::verif_fields(&b.roll_hash));
    if ra.0 != rb.0 || ra.1 != rb.1 || ra.2 != rb.2 || ra.3 != rb.3 {
        same = false;
    }
    let mut k = 0;
    while k < 7 {
        if ra.4[k] != rb.4[k] {
            same = false;
        }
        k += 1;
    }
    let mut j = 0;
    while j < 31 {
        if j >= lo {
            let (x, y) = (&a.bh_context[j], &b.bh_context[j]);
            if x.blockhash_index != y.blockhash_index || x.blockhash_ch_half != y.blockhash_ch_half
                || x.h_full.value() != y.h_full.value() || x.h_half.value() != y.h_half.value()
            {
                same = false;
            }
            let mut i = 0;
            while i < 64 {
                if x.blockhash[i] != y.blockhash[i] {
                    same = false;
                }
                i += 1;
            }
        }
        j += 1;
    }
    same
}

fn feed(gen: &mut Generator, buf: &[u8], form: u8) {
    match form {
        0 => {
            gen.update(buf);
        }
        1 => {
            gen.update_by_iter(buf.iter().copied());
        }
        _ => {
            *gen += buf;
        }
    }
}

/// One-item chunks: update(&[c]), update_by_iter(once(c)), += &[c], += &[c; 1] and += c leave
/// the generator in exactly the state update_by_byte(c) does, from ANY invariant state.
/// Together with the single-byte obligation -- which holds for an ARBITRARY value of the size
/// counter (the pure model has no counter, so `input_size` is unconstrained below F there) --
/// this is what makes a chunk "a sequence of single-byte steps with the counter running
/// ahead": the loop body of every form is the same code, and the only reader of the counter
/// inside it (the elimination test) is covered for every counter value.
fn step_one_item(st: usize, en: usize, form: u8) {
    let g0 = any_gen(st, en);
    kani::assume(inv(&g0, st, en));
    kani::assume(g0.input_size < u64::MAX);
    let c: u8 = kani::any();
    let mut byref = Generator(g0);
    byref.update_by_byte(c);
    let mut gen = Generator(g0);
    match form {
        0 | 1 | 2 => feed(&mut gen, &[c], form),
        3 => {
            gen += &[c; 1];
        }
        _ => {
            gen += c;
        }
    }
    assert!(gen_eq(&gen.0, &byref.0, st));
    kani::cover!(gen.0.bhidx_start > st || en - st < 2);
    kani::cover!(gen.0.bhidx_end > en || en == 31 || g0.bhidx_end_limit < en);
}

/// Two-byte chunks (the size counter runs ahead by one during the first iteration; the
/// `unsafe` build carries cached context pointers into the second iteration): same pure
/// content, same counters as the byte-wise feeding of the real generator; elimination may
/// only be ahead, never behind.  The second byte is restricted to one that does not end a
/// piece (its processing then walks the active range with the pointers cached after an
/// ARBITRARY first iteration); a piece-ending second byte is the single-byte obligation of
/// the range reached after the first byte.
fn step_two(st: usize, en: usize, form: u8) {
    let g0 = any_gen(st, en);
    kani::assume(inv(&g0, st, en));
    let f: u64 = kani::any();
    kani::assume(size_ok(&g0, f) && elim_ok(&g0, f) && g0.input_size < f && g0.input_size + 1 < f);
    let buf: [u8; 2] = kani::any();
    let mut r = g0.roll_hash;
    r.update_by_byte(buf[0]);
    r.update_by_byte(buf[1]);
    kani::assume(spec_trigger_depth_fast(r.value()).is_none());
    let mut byref = Generator(g0);
    byref.update_by_byte(buf[0]);
    byref.update_by_byte(buf[1]);
    let mut gen = Generator(g0);
    if form == 3 {
        gen += &buf;
    } else {
        feed(&mut gen, &buf, form);
    }
    let (g1, gr) = (&gen.0, &byref.0);
    assert!(inv_post(g1, st));
    assert!(g1.input_size == g0.input_size + 2 && gr.input_size == g1.input_size);
    assert!(size_ok(g1, f) && elim_ok(g1, f));
    assert!(g1.bhidx_end == gr.bhidx_end && g1.is_last == gr.is_last && g1.roll_hash == gr.roll_hash);
    assert!(g1.fixed_size == gr.fixed_size && g1.bhidx_end_limit == gr.bhidx_end_limit);
    assert!(!g1.is_last || g1.h_last.value() == gr.h_last.value());
    // elimination can only be ahead in the chunked form, never behind
    assert!(g1.bhidx_start >= gr.bhidx_start);
    let mut j = 0;
    while j < 31 {
        if j >= st && j >= g1.bhidx_start && j < g1.bhidx_end {
            assert!(ctx_is(&g1.bh_context[j], &alpha_ctx(&gr.bh_context[j])));
        }
        j += 1;
    }
    if form == 1 {
        assert!(gen_eq(g1, gr, st));
    }
    kani::cover!(g1.bhidx_start > st || en - st < 2);
    kani::cover!(g1.bhidx_start > gr.bhidx_start || form == 1 || en - st < 2);
    kani::cover!(g1.bhidx_end > en || en == 31 || g0.bhidx_end_limit < en);
}

/// += u8 is update_by_byte; update(&[]) and an empty iterator change nothing.
#[kani::proof]
#[kani::unwind(66)]
fn c03_trivial_forms() {
    let g0 = any_gen(2, 4);
    kani::assume(inv(&g0, 2, 4));
    kani::assume(g0.input_size < u64::MAX);
    let c: u8 = kani::any();
    let mut a = Generator(g0);
    a += c;
    let mut b = Generator(g0);
    b.update_by_byte(c);
    assert!(gen_eq(&a.0, &b.0, 2));
    let mut e = Generator(g0);
    e.update(&[]);
    e.update_by_iter(core::iter::empty());
    assert!(gen_eq(&e.0, &g0, 0));
    kani::cover!(a.0.bhidx_end == 5);
}

/// clone and the finalize family leave the state untouched (they take &self; checked on
/// the bits anyway).
#[kani::proof]
#[kani::unwind(66)]
fn c03_finalize_is_pure() {
    let g0 = any_gen(2, 4);
    kani::assume(inv(&g0, 2, 4));
    let e = Generator(g0);
    let cl = e.clone();
    let r1 = e.finalize();
    assert!(gen_eq(&e.0, &g0, 0) && gen_eq(&cl.0, &g0, 0));
    kani::cover!(r1.is_ok());
    kani::cover!(r1.is_err());
}

// =====================================================================================
// O3: digest from an arbitrary invariant state whose counters say "this is the end"
// =====================================================================================

fn digest_eq<const S2: usize>(h: &FuzzyHashData<64, S2, false>, d: &SpecDigest) -> bool
where
    BlockHashSize<S2>: ConstrainedBlockHashSize,
    BlockHashSizes<64, S2>: ConstrainedBlockHashSizes,
{
    // separate assertions so that a counterexample names the differing part
    assert!(h.log_blocksize as usize == d.log);
    assert!(h.len_blockhash1 as usize == d.l1);
    assert!(h.len_blockhash2 as usize == d.l2);
    let mut i = 0;
    while i < 64 {
        let e1 = if i < d.l1 { d.bh1[i] } else { 0 };
        assert!(h.blockhash1[i] == e1);
        if i < S2 {
            let e2 = if i < d.l2 { d.bh2[i] } else { 0 };
            assert!(h.blockhash2[i] == e2);
        }
        i += 1;
    }
    true
}

fn pure_digest(g: &GeneratorInnerData, st: usize, en: usize, truncate: bool) -> SpecDigest {
    let p = alpha(g, st, en);
    let mut counts = [0usize; 32];
    let mut j = 0;
    while j < 32 {
        // eliminated levels: their piece counts are unknown to the generator; the pure
        // choice must not depend on them (arbitrary values).  Not-yet-forked levels: 0.
        counts[j] = if j < st { kani::any() } else if j < en { p.lev[j].n } else { 0 };
        j += 1;
    }
    let bi = spec_choose_level(&counts, g.input_size, 0);
    // the pure choice never leaves the tracked range (that is part of the claim)
    assert!(bi >= st && bi < en);
    // select the two levels without a symbolic index
    let mut a = p.lev[st];
    let mut b = p.u;
    let mut j = 0;
    while j < 31 {
        if j >= st && j < en && j == bi {
            a = p.lev[j];
            b = if j + 1 < en { p.lev[j + 1] } else if j + 1 == 31 { p.l31 } else { p.u };
        }
        j += 1;
    }
    spec_digest_levels(bi, &a, &b, g.roll_hash.value(), truncate)
}

fn digest_pre(st: usize, en: usize) -> GeneratorInnerData {
    let g = any_gen(st, en);
    kani::assume(inv(&g, st, en));
    let f = g.input_size;
    kani::assume(f <= SPEC_MAX_SIZE && size_ok(&g, f) && elim_ok(&g, f) && limit_ok(&g, f));
    // a hint, when present, also fixed the fork limit at the moment it was given
    if g.fixed_size.is_some() {
        let need = spec_initial_level(f) + 1;
        kani::assume(g.bhidx_end_limit == if need > 30 { 30 } else { need });
    } else {
        kani::assume(g.bhidx_end_limit == 30);
    }
    g
}

fn digest_trunc(st: usize, en: usize) {
    let g = digest_pre(st, en);
    let gen = Generator(g);
    let d = pure_digest(&g, st, en, true);
    match gen.finalize() {
        Ok(h) => assert!(digest_eq::<32>(&h, &d)),
        Err(_) => assert!(false),
    }
    kani::cover!((d.l2 == 32 && d.l1 == 64) || en - st < 2);
    kani::cover!(d.log == en - 1 || en - st > 1);
    kani::cover!((d.log == st && d.l1 < 32) || st > 0);
}

fn digest_long(st: usize, en: usize) {
    let g = digest_pre(st, en);
    let gen = Generator(g);
    let d = pure_digest(&g, st, en, false);
    match gen.finalize_without_truncation() {
        Ok(h) => assert!(digest_eq::<64>(&h, &d)),
        Err(_) => assert!(false),
    }
    match gen.finalize_raw::<false, 64, 32>() {
        Ok(h) => assert!(d.l2 <= 32 && digest_eq::<32>(&h, &d)),
        Err(e) => assert!(d.l2 > 32 && e == GeneratorError::OutputOverflow),
    }
    kani::cover!(d.l2 > 32 || en - st < 2);
    kani::cover!(d.l2 == 32 || en - st < 2);
    kani::cover!((d.l2 == 64 && d.l1 == 64) || en - st < 2);
}

/// Error contract of finalization from an arbitrary invariant state.
#[kani::proof]
#[kani::unwind(66)]
fn c12_finalize_errors() {
    let g = any_gen(1, 4);
    kani::assume(inv(&g, 1, 4));
    let gen = Generator(g);
    let r = gen.finalize();
    let rl = gen.finalize_without_truncation();
    if let Some(hint) = g.fixed_size {
        if hint != g.input_size {
            assert!(r == Err(GeneratorError::FixedSizeMismatch) && rl == Err(GeneratorError::FixedSizeMismatch));
        }
    }
    if g.fixed_size.is_none() || g.fixed_size == Some(g.input_size) {
        if g.input_size > SPEC_MAX_SIZE {
            assert!(r == Err(GeneratorError::InputSizeTooLarge) && rl == Err(GeneratorError::InputSizeTooLarge));
        } else {
            assert!(r.is_ok() && rl.is_ok());
        }
    }
    assert!(Generator::MAX_INPUT_SIZE == SPEC_MAX_SIZE);
    assert!(gen.may_warn_about_small_input_size() == (g.fixed_size.unwrap_or(g.input_size) < 4097));
    assert!(GeneratorError::FixedSizeTooLarge.is_size_too_large_error() && GeneratorError::InputSizeTooLarge.is_size_too_large_error());
    assert!(!GeneratorError::FixedSizeMismatch.is_size_too_large_error() && !GeneratorError::OutputOverflow.is_size_too_large_error());
    kani::cover!(g.input_size == SPEC_MAX_SIZE && r.is_ok());
    kani::cover!(g.input_size == SPEC_MAX_SIZE + 1 && r.is_err());
    kani::cover!(g.fixed_size == Some(0) && g.input_size == 1);
}

// =====================================================================================
// O4 / O5: size arithmetic and the size hint
// =====================================================================================

/// get_log_block_size_from_input_size == max(start, least j with 192*2^j >= size)
/// for every size up to the limit (+1) and every start.
#[kani::proof]
#[kani::unwind(33)]
fn c13_initial_level_full() {
    let size: u64 = kani::any();
    let start: usize = kani::any();
    kani::assume(size <= SPEC_MAX_SIZE + 1 && start <= 30);
    let got = Generator::get_log_block_size_from_input_size(size, start);
    let want = spec_initial_level(size);
    if size <= SPEC_MAX_SIZE {
        assert!(got == if start > want { start } else { want });
    } else {
        assert!(got == 31);
    }
    kani::cover!(size == SPEC_MAX_SIZE && got == 30);
    kani::cover!(size == 193 && got == 1);
    kani::cover!(size == 192 && got == 0);
    kani::cover!(size == (192u64 << 17) + 1 && got == 18);
}

/// set_fixed_input_size(_in_usize) from an arbitrary invariant state.
#[kani::proof]
#[kani::unwind(66)]
fn c12_set_fixed_input_size() {
    let g0 = any_gen(0, 3);
    kani::assume(inv(&g0, 0, 3));
    let n: u64 = kani::any();
    let mut gen = Generator(g0);
    let r = gen.set_fixed_input_size(n);
    if n > SPEC_MAX_SIZE {
        assert!(r == Err(GeneratorError::FixedSizeTooLarge) && gen.0 == g0);
    } else if g0.fixed_size.is_some() && g0.fixed_size != Some(n) {
        assert!(r == Err(GeneratorError::FixedSizeMismatch) && gen.0 == g0);
    } else {
        assert!(r.is_ok());
        let need = spec_initial_level(n) + 1;
        assert!(gen.0.fixed_size == Some(n) && gen.0.bhidx_end_limit == if need > 30 { 30 } else { need });
        // nothing else changes
        let mut back = gen.0;
        back.fixed_size = g0.fixed_size;
        back.bhidx_end_limit = g0.bhidx_end_limit;
        assert!(back == g0);
        assert!(limit_ok(&gen.0, n));
    }
    let mut gen2 = Generator(g0);
    let r2 = gen2.set_fixed_input_size_in_usize(n as usize);
    assert!(r2 == r && gen2.0 == gen.0);
    kani::cover!(r.is_ok() && n == SPEC_MAX_SIZE);
    kani::cover!(r == Err(GeneratorError::FixedSizeMismatch));
    kani::cover!(r == Err(GeneratorError::FixedSizeTooLarge));
}

/// Declaring the hint on a FRESH or reset generator keeps the simulation for F = n:
/// every level the pure digest can select stays tracked (fork limit not one too low).
#[kani::proof]
#[kani::unwind(66)]
fn c12_hint_keeps_limit_ok() {
    let n: u64 = kani::any();
    kani::assume(n <= SPEC_MAX_SIZE);
    let mut gen = Generator::new();
    assert!(gen.set_fixed_input_size(n).is_ok());
    assert!(inv(&gen.0, 0, 1) && limit_ok(&gen.0, n) && size_ok(&gen.0, n) && elim_ok(&gen.0, n));
    let bi = spec_initial_level(n);
    assert!(bi <= 30 && (bi + 1 <= gen.0.bhidx_end_limit || bi == 30));
    kani::cover!(bi == 30);
    kani::cover!(bi == 0);
}

// =====================================================================================
// BMC from the public API on short inputs (real initial state, real slice loop)
// =====================================================================================

fn bmc_api<const L: usize>() {
    let buf: [u8; L] = kani::any();
    let n: usize = kani::any();
    kani::assume(n <= L);
    let mut s = SpecCtph::new();
    let mut i = 0;
    while i < L {
        if i < n {
            s.step(buf[i]);
        }
        i += 1;
    }
    let dt = s.digest(true);
    let dl = s.digest(false);
    // one call, no hint
    let mut g = Generator::new();
    g.update(&buf[..n]);
    assert!(g.input_size() == n as u64);
    match g.finalize() {
        Ok(h) => assert!(digest_eq::<32>(&h, &dt)),
        Err(_) => assert!(false),
    }
    match g.finalize_without_truncation() {
        Ok(h) => assert!(digest_eq::<64>(&h, &dl)),
        Err(_) => assert!(false),
    }
    // split at an arbitrary point, mixed forms, correct hint
    let k: usize = kani::any();
    kani::assume(k <= n);
    let mut g2 = Generator::new();
    assert!(g2.set_fixed_input_size_in_usize(n).is_ok());
    g2.update_by_iter(buf[..k].iter().copied());
    g2 += &buf[k..n];
    assert!(g2.input_size() == n as u64);
    match g2.finalize() {
        Ok(h) => assert!(digest_eq::<32>(&h, &dt)),
        Err(_) => assert!(false),
    }
    kani::cover!(n == L && dt.l1 >= 2);
    kani::cover!(n == L && k > 0 && k < n);
    kani::cover!(n == 0);
}

#[kani::proof]
#[kani::unwind(66)]
fn c01_bmc_api_l2() { bmc_api::<2>() }
#[kani::proof]
#[kani::unwind(66)]
fn c01_bmc_api_l3() { bmc_api::<3>() }

// per-range instantiations selected by the runner
include!(concat!(env!("CARGO_MANIFEST_DIR"), "/verif_gen/gen_pairs.rs"));


