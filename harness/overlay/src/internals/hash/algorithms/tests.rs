#![cfg(kani)]
//! C06 (normalization kernel, verify), C04 (parser kernels), C05 (base64 insertion).
use super::*;

include!(concat!(env!("CARGO_MANIFEST_DIR"), "/verif_spec/common.rs"));
include!(concat!(env!("CARGO_MANIFEST_DIR"), "/verif_spec/norm.rs"));
include!(concat!(env!("CARGO_MANIFEST_DIR"), "/verif_spec/grammar.rs"));

fn any_syms<const L: usize>(alpha: u8) -> [u8; L] {
    let a: [u8; L] = kani::any();
    let mut i = 0;
    while i < L {
        kani::assume(a[i] < alpha);
        i += 1;
    }
    a
}

fn any_len(max: usize) -> usize {
    let n: usize = kani::any();
    kani::assume(n <= max);
    n
}

// ---- C06: normalize kernel ------------------------------------------------------

/// normalize_block_hash_in_place_internal::<N> == spec_norm on every content of raw
/// length <= B: collapsed prefix, zero fill of the vacated part, bytes past the old length
/// untouched; the result passes the is-normalized / validity verification.
fn c06_norm<const N: usize>(b: usize)
where
    BlockHashSize<N>: ConstrainedBlockHashSize,
{
    let inp = any_syms::<N>(64);
    let n = any_len(b);
    let mut bh = inp;
    let mut len = n as u8;
    normalize_block_hash_in_place_internal::<N>(&mut bh, &mut len, false);
    let mut exp = [0u8; N];
    let elen = spec_norm::<N, N>(&inp, n, &mut exp);
    assert!(len as usize == elen);
    let mut i = 0;
    while i < N {
        if i < elen {
            assert!(bh[i] == exp[i]);
        } else if i < n {
            assert!(bh[i] == 0);
        } else {
            assert!(bh[i] == inp[i]);
        }
        i += 1;
    }
    kani::cover!(elen < n && n == b);
    kani::cover!(elen == n && n == b);
    kani::cover!(elen == 3 && n == b && b > 3);
}

macro_rules! c06_norm_harness {
    ($name:ident, $n:literal, $b:literal) => {
        #[kani::proof]
        #[kani::unwind(66)]
        fn $name() {
            c06_norm::<$n>($b)
        }
    };
}
c06_norm_harness!(c06_norm32_b8, 32, 8);
c06_norm_harness!(c06_norm32_b16, 32, 16);
c06_norm_harness!(c06_norm32_b24, 32, 24);
c06_norm_harness!(c06_norm32_b32, 32, 32);
c06_norm_harness!(c06_norm64_b8, 64, 8);
c06_norm_harness!(c06_norm64_b16, 64, 16);
c06_norm_harness!(c06_norm64_b24, 64, 24);
c06_norm_harness!(c06_norm64_b32, 64, 32);
c06_norm_harness!(c06_norm64_b48, 64, 48);
c06_norm_harness!(c06_norm64_b64, 64, 64);

/// Family (B): full capacity, one planted run of symbolic length r at symbolic position p,
/// surrounded by symbols that differ from their predecessor (run-free neighbours).
fn c06_norm_planted<const N: usize>()
where
    BlockHashSize<N>: ConstrainedBlockHashSize,
{
    let mut inp = any_syms::<N>(64);
    let n = any_len(N);
    let p = any_len(N);
    let r = any_len(N);
    let sym: u8 = kani::any();
    kani::assume(sym < 64 && r >= 1 && p + r <= n);
    let mut i = 0;
    while i < N {
        if i >= p && i < p + r {
            inp[i] = sym;
        } else if i >= 1 && i < n {
            kani::assume(inp[i] != inp[i - 1]);
        }
        i += 1;
    }
    kani::assume(p == 0 || inp[p - 1] != sym);
    let mut bh = inp;
    let mut len = n as u8;
    normalize_block_hash_in_place_internal::<N>(&mut bh, &mut len, false);
    let kept = if r > 3 { 3 } else { r };
    assert!(len as usize == n - (r - kept));
    let mut i = 0;
    while i < N {
        if i < p + kept {
            assert!(bh[i] == inp[i]);
        } else if i < n - (r - kept) {
            assert!(bh[i] == inp[i + (r - kept)]);
        } else if i < n {
            assert!(bh[i] == 0);
        } else {
            assert!(bh[i] == inp[i]);
        }
        i += 1;
    }
    kani::cover!(r == N);
    kani::cover!(r == 4 && p == 0 && n == N);
    kani::cover!(r > 4 && p + r == n && n == N && p > 0);
}

#[kani::proof]
#[kani::unwind(66)]
fn c06_norm32_planted() { c06_norm_planted::<32>() }
#[kani::proof]
#[kani::unwind(66)]
fn c06_norm64_planted() { c06_norm_planted::<64>() }

/// originally_normalized == true is the identity.
#[kani::proof]
#[kani::unwind(66)]
fn c06_norm_noop() {
    let inp: [u8; 64] = kani::any();
    let n: u8 = kani::any();
    let mut bh = inp;
    let mut len = n;
    normalize_block_hash_in_place_internal::<64>(&mut bh, &mut len, true);
    normalize_block_hash_in_place::<64, true>(&mut bh, &mut len);
    assert!(len == n);
    let mut i = 0;
    while i < 64 {
        assert!(bh[i] == inp[i]);
        i += 1;
    }
}

/// verify_block_hash_internal on ARBITRARY bytes (not assumed valid) ==
/// range-in /\ zero-tail /\ "no run of 4" as selected by the flags; never panics for len <= N.
fn c06_verify<const N: usize>(b: usize)
where
    BlockHashSize<N>: ConstrainedBlockHashSize,
{
    let bh: [u8; N] = kani::any();
    let n = any_len(b);
    let (ri, ro, vn): (bool, bool, bool) = (kani::any(), kani::any(), kani::any());
    let got = verify_block_hash_internal::<N>(&bh, n as u8, ri, ro, vn);
    let mut in_range = true;
    let mut tail_zero = true;
    let mut i = 0;
    while i < N {
        if i < n && bh[i] >= 64 {
            in_range = false;
        }
        if i >= n && bh[i] != 0 {
            tail_zero = false;
        }
        i += 1;
    }
    let norm = spec_is_normalized::<N>(&bh, n);
    // NOTE: with verify_normalization and !verify_data_range_in, the sentinel 0x40 as a
    // symbol is out of contract (documented range), so that case assumes in_range.
    if vn && !ri {
        kani::assume(in_range);
    }
    let expect = (!ri || in_range) && (!ro || tail_zero) && (!vn || norm);
    assert!(got == expect);
    kani::cover!(got && vn && n == b);
    kani::cover!(!got && vn && in_range && tail_zero);
    kani::cover!(!got && !tail_zero && in_range && ro);
}

/// the four const-generic wrappers select the flags as documented
#[kani::proof]
#[kani::unwind(66)]
fn c06_verify_wrappers() {
    let bh: [u8; 32] = kani::any();
    let n = any_len(4);
    let (ri, ro): (bool, bool) = (kani::any(), kani::any());
    let t = verify_block_hash_internal::<32>(&bh, n as u8, ri, ro, true);
    let f = verify_block_hash_internal::<32>(&bh, n as u8, ri, ro, false);
    assert!(verify_block_hash_input::<32, true>(&bh, n as u8, ri, ro) == t);
    assert!(verify_block_hash_input::<32, false>(&bh, n as u8, ri, ro) == f);
    assert!(verify_block_hash_current::<32, true>(&bh, n as u8, ri, ro) == f);
    assert!(verify_block_hash_current::<32, false>(&bh, n as u8, ri, ro) == t);
    kani::cover!(t != f);
}

#[kani::proof]
#[kani::unwind(66)]
fn c06_verify32_b32() { c06_verify::<32>(32) }
#[kani::proof]
#[kani::unwind(66)]
fn c06_verify64_b16() { c06_verify::<64>(16) }
#[kani::proof]
#[kani::unwind(66)]
fn c06_verify64_b64() { c06_verify::<64>(64) }

// ---- C05: base64 insertion -------------------------------------------------------

const B64: &[u8; 64] = b"ABCDEFGHIJKLMNOPQRSTUVWXYZabcdefghijklmnopqrstuvwxyz0123456789+/";

/// insert_block_hash_into_bytes writes exactly the base64 characters of hash[..len] to
/// buf[..len] and nothing else; base64_index is its inverse and rejects every other byte.
fn c05_insert(b: usize) {
    let h = any_syms::<64>(64);
    let n = any_len(b);
    let orig: [u8; 72] = kani::any();
    let mut buf = orig;
    insert_block_hash_into_bytes::<64>(&mut buf, &h, n as u8);
    let mut i = 0;
    while i < 72 {
        if i < n {
            assert!(buf[i] == B64[h[i] as usize]);
            assert!(base64_index(buf[i]) == h[i]);
        } else {
            assert!(buf[i] == orig[i]);
        }
        i += 1;
    }
    kani::cover!(n == b);
}
#[kani::proof]
#[kani::unwind(74)]
fn c05_insert_block_hash_b16() { c05_insert(16) }
#[kani::proof]
#[kani::unwind(74)]
fn c05_insert_block_hash_b64() { c05_insert(64) }

/// The two base64 tables are mutually inverse on their whole domains.
#[kani::proof]
fn c05_base64_tables() {
    let c: u8 = kani::any();
    let v = base64_index(c);
    let is_b64 = (c >= b'A' && c <= b'Z') || (c >= b'a' && c <= b'z') || (c >= b'0' && c <= b'9') || c == b'+' || c == b'/';
    assert!((v != BASE64_INVALID) == is_b64);
    assert!(v <= 64);
    if is_b64 {
        assert!(BASE64_TABLE_U8[v as usize] == c);
        assert!(B64[v as usize] == c);
    }
    let s: u8 = kani::any();
    kani::assume(s < 64);
    assert!(base64_index(BASE64_TABLE_U8[s as usize]) == s);
    assert!(BASE64_TABLE_U8[s as usize] == B64[s as usize]);
    kani::cover!(v == 63);
    kani::cover!(v == 0x40 && c > 127);
}

// ---- C04: block size field -------------------------------------------------------

/// parse_block_size_from_bytes on every buffer of up to 13 bytes == grammar:
/// value, consumed count, remaining slice, error kind and offset for every class.
#[kani::proof]
#[kani::unwind(33)]
fn c04_block_size_field() {
    let buf: [u8; 13] = kani::any();
    let n = any_len(13);
    let mut rest: &[u8] = &buf[..n];
    let got = parse_block_size_from_bytes(&mut rest);
    let spec = spec_block_size_field::<13>(&buf, n);
    match got {
        Ok((bs, used)) => {
            assert!(spec.ok);
            assert!(bs as u64 == spec.value && used == spec.consumed);
            assert!(rest.len() == n - used);
            assert!(block_size::is_valid(bs));
        }
        Err(e) => {
            assert!(!spec.ok);
            assert!(e.1 == ParseErrorOrigin::BlockSize);
            assert!(e.2 == spec.err_offset);
            assert!(kind_code(e.0) == spec.err_kind);
            assert!(rest.len() == n); // untouched on error
        }
    }
    kani::cover!(spec.ok && spec.value == 3221225472);
    kani::cover!(!spec.ok && spec.err_kind == K_TOO_LARGE);
    kani::cover!(!spec.ok && spec.err_kind == K_INVALID);
    kani::cover!(!spec.ok && spec.err_kind == K_ZERO);
    kani::cover!(!spec.ok && spec.err_kind == K_EMPTY);
    kani::cover!(!spec.ok && spec.err_kind == K_EOS && n == 13);
    kani::cover!(!spec.ok && spec.err_kind == K_CHAR && spec.err_offset == 12);
}

fn kind_code(k: ParseErrorKind) -> u8 {
    match k {
        ParseErrorKind::BlockSizeIsEmpty => K_EMPTY,
        ParseErrorKind::BlockSizeStartsWithZero => K_ZERO,
        ParseErrorKind::BlockSizeIsInvalid => K_INVALID,
        ParseErrorKind::BlockSizeIsTooLarge => K_TOO_LARGE,
        ParseErrorKind::BlockHashIsTooLong => K_TOO_LONG,
        ParseErrorKind::UnexpectedCharacter => K_CHAR,
        ParseErrorKind::UnexpectedEndOfString => K_EOS,
    }
}

fn state_code(s: BlockHashParseState) -> u8 {
    match s {
        BlockHashParseState::MetEndOfString => S_EOS,
        BlockHashParseState::MetComma => S_COMMA,
        BlockHashParseState::MetColon => S_COLON,
        BlockHashParseState::OverflowError => S_OVERFLOW,
        BlockHashParseState::Base64Error => S_B64,
    }
}

// ---- C04: block hash field -------------------------------------------------------

/// parse_block_hash_from_bytes::<_, N> on every buffer of T bytes (length symbolic) ==
/// grammar model: state, consumed count, stored symbols and length, remaining slice,
/// and the sequence of reported (position, raw length) runs.  `strict` selects the model
/// of the strict-parser feature (capacity counted on the raw text).
fn c04_block_hash_field<const N: usize, const T: usize>(normalize: bool, strict: bool)
where
    BlockHashSize<N>: ConstrainedBlockHashSize,
{
    c04_block_hash_field_p::<N, T>(normalize, strict, 0)
}

/// `runfree`: the first `runfree` bytes are base64 characters without two equal neighbours
/// (a structured family that reaches the capacity cheaply: everything interesting happens in
/// the unconstrained tail).
fn c04_block_hash_field_p<const N: usize, const T: usize>(normalize: bool, strict: bool, runfree: usize)
where
    BlockHashSize<N>: ConstrainedBlockHashSize,
{
    let buf: [u8; T] = kani::any();
    let n = any_len(T);
    let mut i = 0;
    while i < T {
        if i < runfree {
            kani::assume(spec_b64(buf[i]) != 0x40 && (i == 0 || buf[i] != buf[i - 1]));
        }
        i += 1;
    }
    kani::assume(n >= runfree);
    let mut rest: &[u8] = &buf[..n];
    let dirty: [u8; N] = kani::any();
    let mut bh = dirty;
    let mut len: u8 = kani::any();
    let mut rep_pos = [0usize; 24];
    let mut rep_len = [0usize; 24];
    let mut nrep = 0usize;
    let (state, used) = parse_block_hash_from_bytes::<_, N>(&mut bh, &mut len, normalize, &mut rest, |p, l| {
        if nrep < 24 {
            rep_pos[nrep] = p;
            rep_len[nrep] = l;
        }
        nrep += 1;
    });
    let spec = spec_block_hash_field::<T, N>(&buf, n, normalize, strict, strict);
    assert!(state_code(state) == spec.state);
    assert!(used == spec.consumed);
    assert!(rest.len() == n - used);
    assert!(len as usize == spec.stored_len);
    let mut i = 0;
    while i < N {
        if i < spec.stored_len {
            assert!(bh[i] == spec.stored[i]);
        } else {
            assert!(bh[i] == dirty[i]); // nothing else is written
        }
        i += 1;
    }
    assert!(nrep == spec.nruns);
    let mut r = 0;
    while r < 24 {
        if r < spec.nruns {
            assert!(rep_pos[r] == spec.run_pos[r] && rep_len[r] == spec.run_len[r]);
        }
        r += 1;
    }
    kani::cover!(spec.state == S_OVERFLOW || T <= N);
    kani::cover!((spec.state == S_COLON && spec.stored_len == N) || T <= N);
    kani::cover!(spec.state == S_EOS && spec.stored_len > 1);
    kani::cover!(spec.state == S_B64);
    kani::cover!(spec.state == S_COMMA);
    kani::cover!(!normalize || (spec.nruns >= 1 && spec.state != S_OVERFLOW));
}

macro_rules! c04_bh_harness {
    ($name:ident, $n:literal, $t:literal, $norm:literal) => {
        #[kani::proof]
        #[kani::unwind(80)]
        fn $name() {
            c04_block_hash_field::<$n, $t>($norm, cfg!(feature = "strict-parser"))
        }
    };
}
/// capacity boundary of the collapsing parser, cheaply: 29 run-free symbols, then 11 free bytes
#[kani::proof]
#[kani::unwind(80)]
fn c04_bh32_t40_norm_tail() {
    c04_block_hash_field_p::<32, 40>(true, cfg!(feature = "strict-parser"), 29)
}
#[kani::proof]
#[kani::unwind(80)]
fn c04_bh64_t72_norm_tail() {
    c04_block_hash_field_p::<64, 72>(true, cfg!(feature = "strict-parser"), 61)
}
c04_bh_harness!(c04_bh32_t12_raw, 32, 12, false);
c04_bh_harness!(c04_bh32_t12_norm, 32, 12, true);
c04_bh_harness!(c04_bh32_t40_raw, 32, 40, false);
c04_bh_harness!(c04_bh32_t40_norm, 32, 40, true);
c04_bh_harness!(c04_bh64_t16_raw, 64, 16, false);
c04_bh_harness!(c04_bh64_t16_norm, 64, 16, true);
c04_bh_harness!(c04_bh64_t72_raw, 64, 72, false);
c04_bh_harness!(c04_bh64_t40_norm, 64, 40, true);
c04_bh_harness!(c04_bh64_t72_norm, 64, 72, true);
