#![cfg(kani)]
//! C20 (block-size half), C10 (numeric / index windows): complete-domain queries.
use super::*;

// ---- C20: block sizes -------------------------------------------------------

/// Exactly the 31 values 3*2^n (n < 31) are valid: all 2^32 block sizes.
#[kani::proof]
fn c20_is_valid_full_u32() {
    let bs: u32 = kani::any();
    let mut r = false;
    let mut n = 0u32;
    while n < 31 {
        if bs == (3u32 << n) {
            r = true;
        }
        n += 1;
    }
    assert_eq!(block_size::is_valid(bs), r);
    kani::cover!(r);
    kani::cover!(!r);
}

/// from_log / log_from_valid round trip on all 31 logarithms, None above.
#[kani::proof]
fn c20_log_roundtrip() {
    let n: u8 = kani::any();
    assert_eq!(block_size::is_log_valid(n), n < 31);
    match block_size::from_log(n) {
        Some(bs) => {
            assert!(n < 31);
            assert_eq!(bs as u64, 3u64 << n);
            assert!(block_size::is_valid(bs));
            assert_eq!(block_size::log_from_valid(bs), n);
            assert_eq!(block_size::log_from_valid_internal(bs), n);
        }
        None => assert!(n >= 31),
    }
    kani::cover!(n == 30);
    kani::cover!(n == 31);
}

/// log_from_valid on all valid u32 values (de Bruijn lookup).
#[kani::proof]
fn c20_log_from_valid_full() {
    let bs: u32 = kani::any();
    kani::assume(block_size::is_valid(bs));
    let n = block_size::log_from_valid(bs);
    assert!(n < 31);
    assert_eq!(3u32 << n, bs);
    kani::cover!(bs == 3221225472);
}

fn decimal(mut v: u32, out: &mut [u8; 10]) -> usize {
    // digits, most significant first; constant trip count 10
    let mut tmp = [0u8; 10];
    let mut n = 0usize;
    let mut i = 0;
    while i < 10 {
        if v != 0 || i == 0 {
            tmp[n] = b'0' + (v % 10) as u8;
            v /= 10;
            n += 1;
        }
        i += 1;
    }
    let mut j = 0;
    while j < 10 {
        if j < n {
            out[j] = tmp[n - 1 - j];
        }
        j += 1;
    }
    n
}

/// The canonical decimal table equals the decimal expansion of 3<<n for all 31 n.
#[kani::proof]
#[kani::unwind(12)]
fn c20_block_size_strings() {
    let n: u8 = kani::any();
    kani::assume(n < 31);
    let s = block_size::BLOCK_SIZES_STR[n as usize].as_bytes();
    let mut d = [0u8; 10];
    let dl = decimal(3u32 << n, &mut d);
    assert!(s.len() == dl);
    assert!(s.len() <= block_size::MAX_BLOCK_SIZE_LEN_IN_CHARS);
    let mut i = 0;
    while i < 10 {
        if i < dl {
            assert!(s[i] == d[i]);
        }
        i += 1;
    }
    assert!(block_size::MAX_BLOCK_SIZE_LEN_IN_CHARS == 10);
    kani::cover!(n == 30 && dl == 10);
}

/// near / near-eq / near-lt / near-gt / compare_sizes / cmp on all 31x31 pairs.
#[kani::proof]
fn c20_relations_full() {
    let a: u8 = kani::any();
    let b: u8 = kani::any();
    kani::assume(a < 31 && b < 31);
    let eq = a == b;
    let lt = b as i32 == a as i32 + 1; // rhs is double
    let gt = a as i32 == b as i32 + 1; // rhs is half
    assert_eq!(block_size::is_near_eq(a, b), eq);
    assert_eq!(block_size::is_near_lt(a, b), lt);
    assert_eq!(block_size::is_near_gt(a, b), gt);
    assert_eq!(block_size::is_near(a, b), eq || lt || gt);
    let rel = block_size::compare_sizes(a, b);
    assert_eq!(rel == BlockSizeRelation::NearEq, eq);
    assert_eq!(rel == BlockSizeRelation::NearLt, lt);
    assert_eq!(rel == BlockSizeRelation::NearGt, gt);
    assert_eq!(rel == BlockSizeRelation::Far, !(eq || lt || gt));
    assert_eq!(rel.is_near(), eq || lt || gt);
    let o = block_size::cmp(a, b);
    assert_eq!(o == Ordering::Less, a < b);
    assert_eq!(o == Ordering::Equal, a == b);
    assert_eq!(o == Ordering::Greater, a > b);
    // block sizes themselves agree with the logarithms
    let (x, y) = (block_size::from_log(a).unwrap() as u64, block_size::from_log(b).unwrap() as u64);
    assert_eq!(lt, y == 2 * x);
    assert_eq!(gt, x == 2 * y);
    kani::cover!(lt && a == 29);
    kani::cover!(gt && a == 30);
    kani::cover!(rel == BlockSizeRelation::Far);
}

// ---- C10: numeric / index windows -------------------------------------------

include!(concat!(env!("CARGO_MANIFEST_DIR"), "/verif_spec/common.rs"));

fn spec_window(s: &[u8; 64], k: usize) -> u64 {
    ((s[k] as u64) << 36)
        | ((s[k + 1] as u64) << 30)
        | ((s[k + 2] as u64) << 24)
        | ((s[k + 3] as u64) << 18)
        | ((s[k + 4] as u64) << 12)
        | ((s[k + 5] as u64) << 6)
        | (s[k + 6] as u64)
}

/// Every numeric / index window of a block hash of any length 0..=64 is the
/// base-64 big-endian encoding of its 7-symbol slice (+ log << 42).
#[kani::proof]
#[kani::unwind(66)]
fn c10_windows_full_length() {
    let s: [u8; 64] = kani::any();
    kani::assume(all64!(s, |x: u8| x < 64));
    let n: usize = kani::any();
    kani::assume(n <= 64);
    let log: u8 = kani::any();
    kani::assume(log <= 31);
    let mut it = block_hash::NumericWindows::new(&s[..n]);
    let mut jt = block_hash::IndexWindows::new(&s[..n], log);
    let expect = if n >= 7 { n - 6 } else { 0 };
    assert!(it.len() == expect && jt.len() == expect);
    let mut k = 0usize;
    while k < 58 {
        if k < expect {
            let w = it.next();
            let x = jt.next();
            assert!(w == Some(spec_window(&s, k)));
            assert!(x == Some(spec_window(&s, k) | ((log as u64) << 42)));
        }
        k += 1;
    }
    assert!(it.next().is_none() && jt.next().is_none());
    assert!(it.next().is_none() && jt.next().is_none()); // fused
    kani::cover!(n == 64);
    kani::cover!(n == 7);
    kani::cover!(n == 6);
}

/// Injectivity: equal windows <=> equal 7-slices (and equal log for index windows).
#[kani::proof]
fn c10_window_injective() {
    let a: [u8; 7] = kani::any();
    let b: [u8; 7] = kani::any();
    kani::assume(a[0] < 64 && a[1] < 64 && a[2] < 64 && a[3] < 64 && a[4] < 64 && a[5] < 64 && a[6] < 64);
    kani::assume(b[0] < 64 && b[1] < 64 && b[2] < 64 && b[3] < 64 && b[4] < 64 && b[5] < 64 && b[6] < 64);
    let la: u8 = kani::any();
    let lb: u8 = kani::any();
    kani::assume(la <= 31 && lb <= 31);
    let wa = block_hash::NumericWindows::new(&a).next().unwrap();
    let wb = block_hash::NumericWindows::new(&b).next().unwrap();
    let same = a[0] == b[0] && a[1] == b[1] && a[2] == b[2] && a[3] == b[3] && a[4] == b[4] && a[5] == b[5] && a[6] == b[6];
    assert_eq!(wa == wb, same);
    assert!(wa <= block_hash::NumericWindows::MASK);
    let ia = block_hash::IndexWindows::new(&a, la).next().unwrap();
    let ib = block_hash::IndexWindows::new(&b, lb).next().unwrap();
    assert_eq!(ia == ib, same && la == lb);
    assert!(ia <= block_hash::IndexWindows::MASK);
    kani::cover!(same && la != lb);
}

// ---- C14: unchecked entry points agree with the checked ones under their contracts ----
#[cfg(feature = "unchecked")]
#[allow(unsafe_code)]
#[kani::proof]
fn c14_unchecked_block_size() {
    let n: u8 = kani::any();
    kani::assume(n < 31);
    assert!(unsafe { block_size::from_log_unchecked(n) } == block_size::from_log(n).unwrap());
    let bs: u32 = kani::any();
    kani::assume(block_size::is_valid(bs));
    assert!(unsafe { block_size::log_from_valid_unchecked(bs) } == block_size::log_from_valid(bs));
    kani::cover!(n == 30);
}
