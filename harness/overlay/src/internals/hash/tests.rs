#![cfg(kani)]
//! Plain hash objects: C04 (parser driver), C05 (formatting), C06 (normalization routes),
//! C11 (validity of every operation), C15 (conversions), C16 (Eq / Hash / Ord).
use super::*;

include!(concat!(env!("CARGO_MANIFEST_DIR"), "/verif_spec/common.rs"));
include!(concat!(env!("CARGO_MANIFEST_DIR"), "/verif_spec/norm.rs"));
include!(concat!(env!("CARGO_MANIFEST_DIR"), "/verif_spec/grammar.rs"));

pub(crate) fn any_len(max: usize) -> usize {
    let n: usize = kani::any();
    kani::assume(n <= max);
    n
}

/// Arbitrary field contents (not assumed valid): a "dirty" destination.
pub(crate) fn dirty_hash<const S1: usize, const S2: usize, const NORM: bool>() -> FuzzyHashData<S1, S2, NORM>
where
    BlockHashSize<S1>: ConstrainedBlockHashSize,
    BlockHashSize<S2>: ConstrainedBlockHashSize,
    BlockHashSizes<S1, S2>: ConstrainedBlockHashSizes,
{
    FuzzyHashData {
        blockhash1: kani::any(),
        blockhash2: kani::any(),
        len_blockhash1: kani::any(),
        len_blockhash2: kani::any(),
        log_blocksize: kani::any(),
    }
}

/// Validity stated independently of the crate's is_valid().
pub(crate) fn spec_valid<const S1: usize, const S2: usize, const NORM: bool>(h: &FuzzyHashData<S1, S2, NORM>) -> bool
where
    BlockHashSize<S1>: ConstrainedBlockHashSize,
    BlockHashSize<S2>: ConstrainedBlockHashSize,
    BlockHashSizes<S1, S2>: ConstrainedBlockHashSizes,
{
    let (l1, l2) = (h.len_blockhash1 as usize, h.len_blockhash2 as usize);
    if h.log_blocksize >= 31 || l1 > S1 || l2 > S2 {
        return false;
    }
    let mut ok = true;
    let mut i = 0;
    while i < S1 {
        if (i < l1 && h.blockhash1[i] >= 64) || (i >= l1 && h.blockhash1[i] != 0) {
            ok = false;
        }
        i += 1;
    }
    let mut i = 0;
    while i < S2 {
        if (i < l2 && h.blockhash2[i] >= 64) || (i >= l2 && h.blockhash2[i] != 0) {
            ok = false;
        }
        i += 1;
    }
    if NORM {
        ok = ok && spec_is_normalized::<S1>(&h.blockhash1, l1) && spec_is_normalized::<S2>(&h.blockhash2, l2);
    }
    ok
}

/// Arbitrary VALID object with block hash lengths bounded by (m1, m2).
pub(crate) fn any_hash<const S1: usize, const S2: usize, const NORM: bool>(m1: usize, m2: usize) -> FuzzyHashData<S1, S2, NORM>
where
    BlockHashSize<S1>: ConstrainedBlockHashSize,
    BlockHashSize<S2>: ConstrainedBlockHashSize,
    BlockHashSizes<S1, S2>: ConstrainedBlockHashSizes,
{
    let h = dirty_hash::<S1, S2, NORM>();
    kani::assume(h.len_blockhash1 as usize <= m1 && h.len_blockhash2 as usize <= m2);
    kani::assume(spec_valid(&h));
    h
}

fn same_bytes<const N: usize>(a: &[u8; N], b: &[u8; N]) -> bool {
    let mut same = true;
    let mut i = 0;
    while i < N {
        if a[i] != b[i] {
            same = false;
        }
        i += 1;
    }
    same
}

/// field-by-field identity
pub(crate) fn same_obj<const S1: usize, const S2: usize, const A: bool, const B: bool>(
    a: &FuzzyHashData<S1, S2, A>, b: &FuzzyHashData<S1, S2, B>,
) -> bool
where
    BlockHashSize<S1>: ConstrainedBlockHashSize,
    BlockHashSize<S2>: ConstrainedBlockHashSize,
    BlockHashSizes<S1, S2>: ConstrainedBlockHashSizes,
{
    a.log_blocksize == b.log_blocksize && a.len_blockhash1 == b.len_blockhash1 && a.len_blockhash2 == b.len_blockhash2
        && same_bytes(&a.blockhash1, &b.blockhash1) && same_bytes(&a.blockhash2, &b.blockhash2)
}

// =====================================================================================
// is_valid / is_normalized / full_eq / accessors on ARBITRARY bit patterns (C11, C06)
// =====================================================================================

fn c11_is_valid_spec<const S1: usize, const S2: usize, const NORM: bool>()
where
    BlockHashSize<S1>: ConstrainedBlockHashSize,
    BlockHashSize<S2>: ConstrainedBlockHashSize,
    BlockHashSizes<S1, S2>: ConstrainedBlockHashSizes,
{
    let h = dirty_hash::<S1, S2, NORM>();
    let v = h.is_valid(); // must not panic on any bit pattern
    // 0x40 is the scanner's sentinel: excluded only where the spec and the code may
    // legitimately differ (invalid either way, so no assumption is needed here)
    assert!(v == spec_valid(&h));
    let g = dirty_hash::<S1, S2, NORM>();
    assert!(h.full_eq(&g) == same_obj(&h, &g));
    kani::cover!(v && h.len_blockhash1 as usize == S1 && h.len_blockhash2 as usize == S2);
    kani::cover!(!v && h.len_blockhash1 as usize <= S1 && h.len_blockhash2 as usize <= S2 && h.log_blocksize < 31);
}

#[kani::proof]
#[kani::unwind(66)]
fn c11_is_valid_spec_short_norm() { c11_is_valid_spec::<64, 32, true>() }
#[kani::proof]
#[kani::unwind(66)]
fn c11_is_valid_spec_short_raw() { c11_is_valid_spec::<64, 32, false>() }
#[kani::proof]
#[kani::unwind(66)]
fn c11_is_valid_spec_long_norm() { c11_is_valid_spec::<64, 64, true>() }
#[kani::proof]
#[kani::unwind(66)]
fn c11_is_valid_spec_long_raw() { c11_is_valid_spec::<64, 64, false>() }

// =====================================================================================
// C06 / C11 / C15: normalization routes and conversions
// =====================================================================================

/// Expected content after normalization of `h`.
fn spec_norm_obj<const S1: usize, const S2: usize, const A: bool, const B: bool>(
    h: &FuzzyHashData<S1, S2, A>, r: &FuzzyHashData<S1, S2, B>,
) -> bool
where
    BlockHashSize<S1>: ConstrainedBlockHashSize,
    BlockHashSize<S2>: ConstrainedBlockHashSize,
    BlockHashSizes<S1, S2>: ConstrainedBlockHashSizes,
{
    let mut e1 = [0u8; S1];
    let mut e2 = [0u8; S2];
    let l1 = spec_norm::<S1, S1>(&h.blockhash1, h.len_blockhash1 as usize, &mut e1);
    let l2 = spec_norm::<S2, S2>(&h.blockhash2, h.len_blockhash2 as usize, &mut e2);
    r.log_blocksize == h.log_blocksize && r.len_blockhash1 as usize == l1 && r.len_blockhash2 as usize == l2
        && same_bytes(&r.blockhash1, &e1) && same_bytes(&r.blockhash2, &e2)
}

/// Every route from a raw hash to a normalized one gives spec_norm (block hashes <= (m1, m2)).
fn c06_routes_raw<const S1: usize, const S2: usize>(m1: usize, m2: usize)
where
    BlockHashSize<S1>: ConstrainedBlockHashSize,
    BlockHashSize<S2>: ConstrainedBlockHashSize,
    BlockHashSizes<S1, S2>: ConstrainedBlockHashSizes,
{
    let h = any_hash::<S1, S2, false>(m1, m2);
    let a = h.normalize();
    assert!(spec_norm_obj(&h, &a));
    assert!(spec_valid(&a));
    let b = <FuzzyHashData<S1, S2, true>>::from_raw_form(&h);
    let c = <FuzzyHashData<S1, S2, true>>::from(h);
    assert!(same_obj(&a, &b) && same_obj(&a, &c));
    let d = h.clone_normalized();
    let mut e = h;
    e.normalize_in_place();
    assert!(same_obj(&a, &d) && same_obj(&a, &e));
    kani::cover!(!same_obj(&h, &d) && h.len_blockhash1 as usize == m1);
    kani::cover!(same_obj(&h, &d) && h.len_blockhash2 as usize == m2);
}

/// is_normalized <=> normalization changes nothing; normalizing twice == once.
fn c06_is_normalized<const S1: usize, const S2: usize>(m1: usize, m2: usize)
where
    BlockHashSize<S1>: ConstrainedBlockHashSize,
    BlockHashSize<S2>: ConstrainedBlockHashSize,
    BlockHashSizes<S1, S2>: ConstrainedBlockHashSizes,
{
    let h = any_hash::<S1, S2, false>(m1, m2);
    let d = h.clone_normalized();
    assert!(h.is_normalized() == same_obj(&h, &d));
    let f = d.clone_normalized();
    assert!(same_obj(&d, &f));
    let a = h.normalize();
    assert!(a.is_normalized());
    let g = a.normalize();
    assert!(same_obj(&a, &g));
    kani::cover!(!h.is_normalized() && h.len_blockhash1 as usize == m1);
    kani::cover!(h.is_normalized() && h.len_blockhash2 as usize == m2);
}

/// reinterpreting a normalized hash as raw keeps every symbol (all four routes, dirty destination)
fn c06_reinterpret<const S1: usize, const S2: usize>(m1: usize, m2: usize)
where
    BlockHashSize<S1>: ConstrainedBlockHashSize,
    BlockHashSize<S2>: ConstrainedBlockHashSize,
    BlockHashSizes<S1, S2>: ConstrainedBlockHashSizes,
{
    let a = any_hash::<S1, S2, true>(m1, m2);
    let back = a.to_raw_form();
    let back2 = <FuzzyHashData<S1, S2, false>>::from_normalized(&a);
    let back3 = <FuzzyHashData<S1, S2, false>>::from(a);
    let mut back4 = dirty_hash::<S1, S2, false>();
    a.into_mut_raw_form(&mut back4);
    assert!(same_obj(&a, &back) && same_obj(&a, &back2) && same_obj(&a, &back3) && same_obj(&a, &back4));
    assert!(spec_valid(&back));
    kani::cover!(a.len_blockhash1 as usize == m1 && a.len_blockhash2 as usize == m2);
}

#[kani::proof]
#[kani::unwind(66)]
fn c06_routes_short_m6() { c06_routes_raw::<64, 32>(6, 6) }
#[kani::proof]
#[kani::unwind(66)]
fn c06_routes_short_m8() { c06_routes_raw::<64, 32>(8, 8) }
#[kani::proof]
#[kani::unwind(66)]
fn c06_routes_long_m8() { c06_routes_raw::<64, 64>(8, 8) }
#[kani::proof]
#[kani::unwind(66)]
fn c06_routes_short_m12() { c06_routes_raw::<64, 32>(12, 12) }
#[kani::proof]
#[kani::unwind(66)]
fn c06_routes_long_m12() { c06_routes_raw::<64, 64>(12, 12) }
#[kani::proof]
#[kani::unwind(66)]
fn c06_is_normalized_short_m6() { c06_is_normalized::<64, 32>(6, 6) }
#[kani::proof]
#[kani::unwind(66)]
fn c06_is_normalized_long_m10() { c06_is_normalized::<64, 64>(10, 10) }
#[kani::proof]
#[kani::unwind(66)]
fn c06_reinterpret_short_full() { c06_reinterpret::<64, 32>(64, 32) }
#[kani::proof]
#[kani::unwind(66)]
fn c06_reinterpret_long_full() { c06_reinterpret::<64, 64>(64, 64) }

/// Short <-> long conversions (fresh and dirty destinations), any NORM.
fn c15_short_long<const NORM: bool>(m1: usize, m2: usize) {
    let s = any_hash::<64, 32, NORM>(m1, if m2 < 32 { m2 } else { 32 });
    let l1 = s.to_long_form();
    let l2 = <FuzzyHashData<64, 64, NORM>>::from_short_form(&s);
    let l3 = <FuzzyHashData<64, 64, NORM>>::from(s);
    let mut l4 = dirty_hash::<64, 64, NORM>();
    s.into_mut_long_form(&mut l4);
    // content preserved, upper half zero
    assert!(l1.log_blocksize == s.log_blocksize && l1.len_blockhash1 == s.len_blockhash1 && l1.len_blockhash2 == s.len_blockhash2);
    assert!(same_bytes(&l1.blockhash1, &s.blockhash1));
    let mut i = 0;
    while i < 64 {
        assert!(l1.blockhash2[i] == if i < 32 { s.blockhash2[i] } else { 0 });
        i += 1;
    }
    assert!(same_obj(&l1, &l2) && same_obj(&l1, &l3) && same_obj(&l1, &l4));
    assert!(spec_valid(&l1) && l1.is_valid());
    // and back: identity
    let mut back = dirty_hash::<64, 32, NORM>();
    assert!(l1.try_into_mut_short(&mut back).is_ok());
    assert!(same_obj(&back, &s));
    let back2 = <FuzzyHashData<64, 32, NORM>>::try_from(l1);
    assert!(back2.is_ok() && same_obj(&back2.unwrap(), &s));
    kani::cover!(s.len_blockhash2 as usize == (if m2 < 32 { m2 } else { 32 }));
    kani::cover!(s.len_blockhash1 as usize == m1);
}

#[kani::proof]
#[kani::unwind(66)]
fn c15_short_long_norm_full() { c15_short_long::<true>(64, 32) }
#[kani::proof]
#[kani::unwind(66)]
fn c15_short_long_raw_full() { c15_short_long::<false>(64, 32) }
#[kani::proof]
#[kani::unwind(66)]
fn c15_short_long_raw_m16() { c15_short_long::<false>(16, 16) }
#[kani::proof]
#[kani::unwind(66)]
fn c15_short_long_norm_m16() { c15_short_long::<true>(16, 16) }

/// Narrowing fails exactly when block hash 2 is longer than 32, leaving the destination
/// untouched; otherwise the content is preserved and the result is valid.
fn c15_narrow<const NORM: bool>(m1: usize, m2: usize) {
    let l = any_hash::<64, 64, NORM>(m1, m2);
    let before = dirty_hash::<64, 32, NORM>();
    let mut dest = before;
    let r = l.try_into_mut_short(&mut dest);
    let r2 = <FuzzyHashData<64, 32, NORM>>::try_from(l);
    if l.len_blockhash2 > 32 {
        assert!(r == Err(FuzzyHashOperationError::BlockHashOverflow));
        assert!(r2.is_err());
        assert!(same_obj(&dest, &before));
    } else {
        assert!(r.is_ok() && r2.is_ok());
        assert!(dest.log_blocksize == l.log_blocksize && dest.len_blockhash1 == l.len_blockhash1 && dest.len_blockhash2 == l.len_blockhash2);
        assert!(same_bytes(&dest.blockhash1, &l.blockhash1));
        let mut i = 0;
        while i < 32 {
            assert!(dest.blockhash2[i] == l.blockhash2[i]);
            i += 1;
        }
        assert!(spec_valid(&dest) && dest.is_valid());
        assert!(same_obj(&dest, &r2.unwrap()));
        // widening back is the identity
        assert!(same_obj(&dest.to_long_form(), &l));
    }
    kani::cover!(l.len_blockhash2 == 33);
    kani::cover!(l.len_blockhash2 == 32);
}

#[kani::proof]
#[kani::unwind(66)]
fn c15_narrow_norm_full() { c15_narrow::<true>(64, 64) }
#[kani::proof]
#[kani::unwind(66)]
fn c15_narrow_raw_full() { c15_narrow::<false>(64, 64) }
#[kani::proof]
#[kani::unwind(66)]
fn c15_narrow_raw_m40() { c15_narrow::<false>(8, 40) }

/// The hand-written short-normalized -> long-raw conversion equals the two-step one.
#[kani::proof]
#[kani::unwind(66)]
fn c15_short_norm_to_long_raw() {
    let s = any_hash::<64, 32, true>(64, 32);
    let direct = <FuzzyHashData<64, 64, false>>::from(s);
    let two_step = s.to_long_form().to_raw_form();
    let other = s.to_raw_form().to_long_form();
    assert!(same_obj(&direct, &two_step) && same_obj(&direct, &other));
    assert!(spec_valid(&direct) && direct.is_valid());
    kani::cover!(s.len_blockhash2 == 32 && s.len_blockhash1 == 64);
}

/// normalize commutes with widening (chains over the conversion graph).
#[kani::proof]
#[kani::unwind(66)]
fn c15_chain_commutes_m10() {
    let s = any_hash::<64, 32, false>(10, 10);
    let a = s.normalize().to_long_form();
    let b = s.to_long_form().normalize();
    assert!(same_obj(&a, &b));
    let c = <FuzzyHashData<64, 32, true>>::try_from(b);
    assert!(c.is_ok() && same_obj(&c.unwrap(), &s.normalize()));
    kani::cover!(!s.is_normalized());
}

// =====================================================================================
// C11: constructors (in and out of contract), init_from_internals_raw on dirty objects
// =====================================================================================

/// In contract: constructors from internal arrays build exactly the given content.
fn c11_constructors_ok<const S1: usize, const S2: usize, const NORM: bool>(m1: usize, m2: usize)
where
    BlockHashSize<S1>: ConstrainedBlockHashSize,
    BlockHashSize<S2>: ConstrainedBlockHashSize,
    BlockHashSizes<S1, S2>: ConstrainedBlockHashSizes,
{
    let src = any_hash::<S1, S2, NORM>(m1, m2);
    let (l1, l2) = (src.len_blockhash1 as usize, src.len_blockhash2 as usize);
    let a = <FuzzyHashData<S1, S2, NORM>>::new_from_internals_raw(src.log_blocksize, &src.blockhash1, &src.blockhash2, src.len_blockhash1, src.len_blockhash2);
    let mut b = dirty_hash::<S1, S2, NORM>();
    b.init_from_internals_raw(src.log_blocksize, &src.blockhash1, &src.blockhash2, src.len_blockhash1, src.len_blockhash2);
    let c = <FuzzyHashData<S1, S2, NORM>>::new_from_internals_near_raw(src.log_blocksize, &src.blockhash1[..l1], &src.blockhash2[..l2]);
    let d = <FuzzyHashData<S1, S2, NORM>>::new_from_internals(block_size::from_log(src.log_blocksize).unwrap(), &src.blockhash1[..l1], &src.blockhash2[..l2]);
    assert!(same_obj(&a, &src) && same_obj(&b, &src) && same_obj(&c, &src) && same_obj(&d, &src));
    assert!(a.is_valid() && d.is_valid());
    assert!(a.block_size() as u64 == 3u64 << src.log_blocksize && a.log_block_size() == src.log_blocksize);
    assert!(a.block_hash_1_len() == l1 && a.block_hash_2_len() == l2);
    assert!(a.block_hash_1().len() == l1 && a.block_hash_2().len() == l2);
    let e = <FuzzyHashData<S1, S2, NORM>>::new();
    let f = <FuzzyHashData<S1, S2, NORM>>::default();
    assert!(spec_valid(&e) && e.is_valid() && same_obj(&e, &f) && e.len_blockhash1 == 0 && e.len_blockhash2 == 0 && e.log_blocksize == 0);
    kani::cover!(l1 == m1 && l2 == m2);
}

#[kani::proof]
#[kani::unwind(66)]
fn c11_constructors_ok_short_norm_m12() { c11_constructors_ok::<64, 32, true>(12, 12) }
#[kani::proof]
#[kani::unwind(66)]
fn c11_constructors_ok_long_raw_m12() { c11_constructors_ok::<64, 64, false>(12, 12) }
#[kani::proof]
#[kani::unwind(66)]
fn c11_constructors_ok_short_raw_full() { c11_constructors_ok::<64, 32, false>(64, 32) }
#[kani::proof]
#[kani::unwind(66)]
fn c11_constructors_ok_long_norm_full() { c11_constructors_ok::<64, 64, true>(64, 64) }

/// Out of contract: a constructor that RETURNS must return a valid object.
/// (Panics of the constructor are the documented behaviour and end the path; the runner
/// reads only the tagged assertion.)
fn c11_ooc_new_from_internals<const S1: usize, const S2: usize, const NORM: bool>()
where
    BlockHashSize<S1>: ConstrainedBlockHashSize,
    BlockHashSize<S2>: ConstrainedBlockHashSize,
    BlockHashSizes<S1, S2>: ConstrainedBlockHashSizes,
{
    let bs: u32 = kani::any();
    let b1: [u8; 6] = kani::any();
    let b2: [u8; 6] = kani::any();
    let (n1, n2) = (any_len(6), any_len(6));
    let h = <FuzzyHashData<S1, S2, NORM>>::new_from_internals(bs, &b1[..n1], &b2[..n2]);
    kani::assert(spec_valid(&h), "VERIF_TAG returned_implies_valid");
    kani::cover!(n1 == 6 && n2 == 6);
}

#[kani::proof]
#[kani::unwind(66)]
fn c11_ooc_new_from_internals_short_norm() { c11_ooc_new_from_internals::<64, 32, true>() }
#[kani::proof]
#[kani::unwind(66)]
fn c11_ooc_new_from_internals_short_raw() { c11_ooc_new_from_internals::<64, 32, false>() }
#[kani::proof]
#[kani::unwind(66)]
fn c11_ooc_new_from_internals_long_norm() { c11_ooc_new_from_internals::<64, 64, true>() }

fn c11_ooc_near_raw<const S1: usize, const S2: usize, const NORM: bool>()
where
    BlockHashSize<S1>: ConstrainedBlockHashSize,
    BlockHashSize<S2>: ConstrainedBlockHashSize,
    BlockHashSizes<S1, S2>: ConstrainedBlockHashSizes,
{
    let log: u8 = kani::any();
    let b1: [u8; 6] = kani::any();
    let b2: [u8; 6] = kani::any();
    let (n1, n2) = (any_len(6), any_len(6));
    let h = <FuzzyHashData<S1, S2, NORM>>::new_from_internals_near_raw(log, &b1[..n1], &b2[..n2]);
    kani::assert(spec_valid(&h), "VERIF_TAG returned_implies_valid");
    kani::cover!(n1 == 6 && n2 == 6);
}

#[kani::proof]
#[kani::unwind(66)]
fn c11_ooc_near_raw_short_norm() { c11_ooc_near_raw::<64, 32, true>() }
#[kani::proof]
#[kani::unwind(66)]
fn c11_ooc_near_raw_long_raw() { c11_ooc_near_raw::<64, 64, false>() }

fn c11_ooc_internals_raw<const S1: usize, const S2: usize, const NORM: bool>()
where
    BlockHashSize<S1>: ConstrainedBlockHashSize,
    BlockHashSize<S2>: ConstrainedBlockHashSize,
    BlockHashSizes<S1, S2>: ConstrainedBlockHashSizes,
{
    let src = dirty_hash::<S1, S2, NORM>();
    // keep the interesting part small: only the first 6 positions of each array are free
    let mut i = 6;
    while i < S1 {
        kani::assume(src.blockhash1[i] == 0);
        i += 1;
    }
    let mut i = 6;
    while i < S2 {
        kani::assume(src.blockhash2[i] == 0);
        i += 1;
    }
    let mut d = dirty_hash::<S1, S2, NORM>();
    d.init_from_internals_raw(src.log_blocksize, &src.blockhash1, &src.blockhash2, src.len_blockhash1, src.len_blockhash2);
    kani::assert(spec_valid(&d), "VERIF_TAG returned_implies_valid");
    let e = <FuzzyHashData<S1, S2, NORM>>::new_from_internals_raw(src.log_blocksize, &src.blockhash1, &src.blockhash2, src.len_blockhash1, src.len_blockhash2);
    kani::assert(spec_valid(&e), "VERIF_TAG returned_implies_valid");
}

#[kani::proof]
#[kani::unwind(66)]
fn c11_ooc_internals_raw_short_norm() { c11_ooc_internals_raw::<64, 32, true>() }
#[kani::proof]
#[kani::unwind(66)]
fn c11_ooc_internals_raw_long_raw() { c11_ooc_internals_raw::<64, 64, false>() }

// =====================================================================================
// C16: Eq / Hash / Ord
// =====================================================================================

/// Records every Hasher::write call (bytes and call boundaries).
struct RecHasher<const LOG: usize> {
    log: [u8; LOG],
    n: usize,
    calls: usize,
}
impl<const LOG: usize> core::hash::Hasher for RecHasher<LOG> {
    fn finish(&self) -> u64 {
        0
    }
    fn write(&mut self, bytes: &[u8]) {
        let mut i = 0;
        while i < bytes.len() {
            if self.n < LOG {
                self.log[self.n] = bytes[i];
            }
            self.n += 1;
            i += 1;
        }
        // call boundary marker
        if self.n < LOG {
            self.log[self.n] = 0xee;
        }
        self.n += 1;
        self.calls += 1;
    }
}

/// lexicographic order of the symbol strings, proper prefix first
fn spec_cmp_str<const N: usize>(a: &[u8; N], la: usize, b: &[u8; N], lb: usize) -> i8 {
    let mut r = 0i8;
    let mut i = 0;
    while i < N {
        if r == 0 {
            if i < la && i < lb {
                if a[i] < b[i] {
                    r = -1;
                } else if a[i] > b[i] {
                    r = 1;
                }
            } else if i < lb {
                r = -1; // a is a proper prefix
            } else if i < la {
                r = 1;
            }
        }
        i += 1;
    }
    r
}

fn ord_code(o: core::cmp::Ordering) -> i8 {
    match o {
        core::cmp::Ordering::Less => -1,
        core::cmp::Ordering::Equal => 0,
        core::cmp::Ordering::Greater => 1,
    }
}

fn spec_order<const S1: usize, const S2: usize, const NORM: bool>(a: &FuzzyHashData<S1, S2, NORM>, b: &FuzzyHashData<S1, S2, NORM>) -> i8
where
    BlockHashSize<S1>: ConstrainedBlockHashSize,
    BlockHashSize<S2>: ConstrainedBlockHashSize,
    BlockHashSizes<S1, S2>: ConstrainedBlockHashSizes,
{
    if a.log_blocksize != b.log_blocksize {
        return if a.log_blocksize < b.log_blocksize { -1 } else { 1 };
    }
    let c1 = spec_cmp_str::<S1>(&a.blockhash1, a.len_blockhash1 as usize, &b.blockhash1, b.len_blockhash1 as usize);
    if c1 != 0 {
        return c1;
    }
    spec_cmp_str::<S2>(&a.blockhash2, a.len_blockhash2 as usize, &b.blockhash2, b.len_blockhash2 as usize)
}

fn c16_pair<const S1: usize, const S2: usize, const NORM: bool, const LOG: usize>(m1: usize, m2: usize)
where
    BlockHashSize<S1>: ConstrainedBlockHashSize,
    BlockHashSize<S2>: ConstrainedBlockHashSize,
    BlockHashSizes<S1, S2>: ConstrainedBlockHashSizes,
{
    use core::hash::Hash;
    let a = any_hash::<S1, S2, NORM>(m1, m2);
    let b = any_hash::<S1, S2, NORM>(m1, m2);
    let so = spec_order(&a, &b);
    // for valid objects (zero tail) equal content <=> identical fields
    assert!((a == b) == (so == 0));
    assert!((a == b) == same_obj(&a, &b));
    assert!((a != b) == (so != 0));
    let o = a.cmp(&b);
    assert!(ord_code(o) == so);
    assert!(ord_code(b.cmp(&a)) == -so); // antisymmetry
    assert!(a.partial_cmp(&b) == Some(o));
    assert!(ord_code(a.cmp_by_block_size(&b)) == (if a.log_blocksize < b.log_blocksize { -1 } else if a.log_blocksize > b.log_blocksize { 1 } else { 0 }));
    if a == b {
        let mut ha = RecHasher::<LOG> { log: [0; LOG], n: 0, calls: 0 };
        let mut hb = RecHasher::<LOG> { log: [0; LOG], n: 0, calls: 0 };
        a.hash(&mut ha);
        b.hash(&mut hb);
        assert!(ha.n == hb.n && ha.calls == hb.calls && same_bytes(&ha.log, &hb.log));
        assert!(ha.n <= LOG);
    }
    kani::cover!(a == b && a.len_blockhash1 as usize == m1);
    kani::cover!(so == -1 && a.log_blocksize == b.log_blocksize && a.len_blockhash1 < b.len_blockhash1 && a.len_blockhash1 > 0);
    kani::cover!(so == 1 && a.log_blocksize == b.log_blocksize && a.len_blockhash1 < b.len_blockhash1);
    kani::cover!(so != 0 && a.log_blocksize == b.log_blocksize && a.len_blockhash1 == b.len_blockhash1 && spec_cmp_str::<S1>(&a.blockhash1, a.len_blockhash1 as usize, &b.blockhash1, b.len_blockhash1 as usize) == 0);
}

#[kani::proof]
#[kani::unwind(66)]
fn c16_pair_short_raw_m16() { c16_pair::<64, 32, false, 48>(16, 16) }
#[kani::proof]
#[kani::unwind(66)]
fn c16_pair_short_norm_m16() { c16_pair::<64, 32, true, 48>(16, 16) }
#[kani::proof]
#[kani::unwind(66)]
fn c16_pair_long_raw_m16() { c16_pair::<64, 64, false, 48>(16, 16) }
#[kani::proof]
#[kani::unwind(66)]
fn c16_pair_long_norm_m16() { c16_pair::<64, 64, true, 48>(16, 16) }
/// long forms: block hash 2 beyond the short capacity (differences at index >= 32)
#[kani::proof]
#[kani::unwind(66)]
fn c16_pair_long_raw_m4_40() { c16_pair::<64, 64, false, 56>(4, 40) }
#[kani::proof]
#[kani::unwind(66)]
fn c16_pair_long_norm_m4_40() { c16_pair::<64, 64, true, 56>(4, 40) }
#[kani::proof]
#[kani::unwind(170)]
fn c16_pair_short_raw_full() { c16_pair::<64, 32, false, 160>(64, 32) }
#[kani::proof]
#[kani::unwind(170)]
fn c16_pair_long_raw_full() { c16_pair::<64, 64, false, 160>(64, 64) }
#[kani::proof]
#[kani::unwind(170)]
fn c16_pair_short_norm_full() { c16_pair::<64, 32, true, 160>(64, 32) }
#[kani::proof]
#[kani::unwind(170)]
fn c16_pair_long_norm_full() { c16_pair::<64, 64, true, 160>(64, 64) }

/// transitivity on triples
fn c16_triple<const S1: usize, const S2: usize, const NORM: bool>(m: usize)
where
    BlockHashSize<S1>: ConstrainedBlockHashSize,
    BlockHashSize<S2>: ConstrainedBlockHashSize,
    BlockHashSizes<S1, S2>: ConstrainedBlockHashSizes,
{
    let a = any_hash::<S1, S2, NORM>(m, m);
    let b = any_hash::<S1, S2, NORM>(m, m);
    let c = any_hash::<S1, S2, NORM>(m, m);
    if a <= b && b <= c {
        assert!(a <= c);
    }
    if a == b && b == c {
        assert!(a == c);
    }
    if a < b && b < c {
        assert!(a < c);
    }
    kani::cover!(a < b && b < c);
}

#[kani::proof]
#[kani::unwind(66)]
fn c16_triple_short_raw_m8() { c16_triple::<64, 32, false>(8) }
#[kani::proof]
#[kani::unwind(66)]
fn c16_triple_long_norm_m8() { c16_triple::<64, 64, true>(8) }

// =====================================================================================
// C05: formatting
// =====================================================================================

const B64S: &[u8; 64] = b"ABCDEFGHIJKLMNOPQRSTUVWXYZabcdefghijklmnopqrstuvwxyz0123456789+/";

/// decimal digits of 3 << n, most significant first
fn spec_bs_digits(n: u8, out: &mut [u8; 10]) -> usize {
    let mut v = 3u64 << n;
    let mut tmp = [0u8; 10];
    let mut k = 0usize;
    let mut i = 0;
    while i < 10 {
        if v != 0 {
            tmp[k] = b'0' + (v % 10) as u8;
            v /= 10;
            k += 1;
        }
        i += 1;
    }
    let mut j = 0;
    while j < 10 {
        if j < k {
            out[j] = tmp[k - 1 - j];
        }
        j += 1;
    }
    k
}

/// expected text of a valid object into `out` (MAXT bytes), returns its length
fn spec_text<const S1: usize, const S2: usize, const NORM: bool, const MAXT: usize>(h: &FuzzyHashData<S1, S2, NORM>, out: &mut [u8; MAXT]) -> usize
where
    BlockHashSize<S1>: ConstrainedBlockHashSize,
    BlockHashSize<S2>: ConstrainedBlockHashSize,
    BlockHashSizes<S1, S2>: ConstrainedBlockHashSizes,
{
    let mut d = [0u8; 10];
    let nd = spec_bs_digits(h.log_blocksize, &mut d);
    let (l1, l2) = (h.len_blockhash1 as usize, h.len_blockhash2 as usize);
    let mut i = 0;
    while i < MAXT {
        out[i] = if i < nd {
            d[i]
        } else if i == nd {
            b':'
        } else if i < nd + 1 + l1 {
            B64S[h.blockhash1[i - nd - 1] as usize]
        } else if i == nd + 1 + l1 {
            b':'
        } else if i < nd + 2 + l1 + l2 {
            B64S[h.blockhash2[i - nd - 2 - l1] as usize]
        } else {
            out[i]
        };
        i += 1;
    }
    nd + l1 + l2 + 2
}

/// store_into_bytes: refuses a short buffer without writing; otherwise writes exactly the
/// text and nothing after it.  len_in_str == that length <= MAX_LEN_IN_STR.
fn c05_store<const S1: usize, const S2: usize, const NORM: bool, const BUF: usize>(m1: usize, m2: usize)
where
    BlockHashSize<S1>: ConstrainedBlockHashSize,
    BlockHashSize<S2>: ConstrainedBlockHashSize,
    BlockHashSizes<S1, S2>: ConstrainedBlockHashSizes,
{
    let h = any_hash::<S1, S2, NORM>(m1, m2);
    let orig: [u8; BUF] = kani::any();
    let mut buf = orig;
    let blen = any_len(BUF);
    let mut exp = orig;
    let tl = spec_text::<S1, S2, NORM, BUF>(&h, &mut exp);
    assert!(h.len_in_str() == tl);
    assert!(tl <= <FuzzyHashData<S1, S2, NORM>>::MAX_LEN_IN_STR && tl <= crate::MAX_LEN_IN_STR);
    assert!(<FuzzyHashData<S1, S2, NORM>>::MAX_LEN_IN_STR == 10 + S1 + S2 + 2);
    let r = h.store_into_bytes(&mut buf[..blen]);
    if blen < tl {
        assert!(r == Err(FuzzyHashOperationError::StringizationOverflow));
        assert!(same_bytes(&buf, &orig));
    } else {
        assert!(r == Ok(tl));
        assert!(same_bytes(&buf, &exp));
    }
    kani::cover!(blen == tl && h.len_blockhash1 as usize == m1 && h.len_blockhash2 as usize == m2);
    kani::cover!(blen + 1 == tl);
    kani::cover!(blen == BUF && h.log_blocksize == 30);
}

#[kani::proof]
#[kani::unwind(150)]
fn c05_store_short_raw_m8() { c05_store::<64, 32, false, 40>(8, 8) }
#[kani::proof]
#[kani::unwind(150)]
fn c05_store_long_norm_m8() { c05_store::<64, 64, true, 40>(8, 8) }
#[kani::proof]
#[kani::unwind(150)]
fn c05_store_short_raw_m16() { c05_store::<64, 32, false, 56>(16, 16) }
#[kani::proof]
#[kani::unwind(150)]
fn c05_store_long_raw_m16() { c05_store::<64, 64, false, 56>(16, 16) }
#[kani::proof]
#[kani::unwind(150)]
fn c05_store_long_norm_m16() { c05_store::<64, 64, true, 56>(16, 16) }
#[kani::proof]
#[kani::unwind(150)]
fn c05_store_short_raw_m32() { c05_store::<64, 32, false, 88>(32, 32) }
#[kani::proof]
#[kani::unwind(150)]
fn c05_store_long_raw_m32() { c05_store::<64, 64, false, 88>(32, 32) }
#[kani::proof]
#[kani::unwind(150)]
fn c05_store_long_norm_m32() { c05_store::<64, 64, true, 88>(32, 32) }
#[kani::proof]
#[kani::unwind(150)]
fn c05_store_short_raw_full() { c05_store::<64, 32, false, 116>(64, 32) }
#[kani::proof]
#[kani::unwind(150)]
fn c05_store_long_raw_full() { c05_store::<64, 64, false, 148>(64, 64) }
#[kani::proof]
#[kani::unwind(150)]
fn c05_store_long_norm_full() { c05_store::<64, 64, true, 148>(64, 64) }

struct Sink {
    buf: [u8; 40],
    n: usize,
}
impl core::fmt::Write for Sink {
    fn write_str(&mut self, s: &str) -> core::fmt::Result {
        let b = s.as_bytes();
        let mut i = 0;
        while i < b.len() {
            if self.n < 40 {
                self.buf[self.n] = b[i];
            }
            self.n += 1;
            i += 1;
        }
        Ok(())
    }
}

/// to_string(), String::from and Display produce the same bytes as store_into_bytes.
#[cfg(feature = "alloc")]
fn c05_alloc_forms<const S1: usize, const S2: usize, const NORM: bool>(m: usize)
where
    BlockHashSize<S1>: ConstrainedBlockHashSize,
    BlockHashSize<S2>: ConstrainedBlockHashSize,
    BlockHashSizes<S1, S2>: ConstrainedBlockHashSizes,
{
    use core::fmt::Write;
    let h = any_hash::<S1, S2, NORM>(m, m);
    let mut exp = [0u8; 40];
    let tl = spec_text::<S1, S2, NORM, 40>(&h, &mut exp);
    let s = h.to_string();
    assert!(s.len() == tl);
    let sb = s.as_bytes();
    let mut i = 0;
    while i < 40 {
        if i < tl {
            assert!(sb[i] == exp[i]);
        }
        i += 1;
    }
    let s2 = String::from(h);
    assert!(s2.len() == tl);
    let mut sink = Sink { buf: [0; 40], n: 0 };
    let r = sink.write_fmt(format_args!("{}", h));
    assert!(r.is_ok() && sink.n == tl);
    let mut i = 0;
    while i < 40 {
        if i < tl {
            assert!(sink.buf[i] == exp[i] && s2.as_bytes()[i] == exp[i]);
        }
        i += 1;
    }
    core::mem::forget(s);
    core::mem::forget(s2);
    kani::cover!(h.len_blockhash1 as usize == m && h.len_blockhash2 as usize == m && h.log_blocksize == 30);
}

#[cfg(feature = "alloc")]
#[kani::proof]
#[kani::unwind(66)]
fn c05_alloc_forms_short_raw_m4() { c05_alloc_forms::<64, 32, false>(4) }
#[cfg(feature = "alloc")]
#[kani::proof]
#[kani::unwind(150)]
fn c05_alloc_forms_short_raw_m1() { c05_alloc_forms::<64, 32, false>(1) }
#[cfg(feature = "alloc")]
#[kani::proof]
#[kani::unwind(150)]
fn c05_alloc_forms_long_norm_m1() { c05_alloc_forms::<64, 64, true>(1) }
#[cfg(feature = "alloc")]
#[kani::proof]
#[kani::unwind(66)]
fn c05_alloc_forms_long_norm_m4() { c05_alloc_forms::<64, 64, true>(4) }

// =====================================================================================
// C04: parser driver (the shared macro instantiated for the four plain types)
// =====================================================================================

fn c04_kind(k: ParseErrorKind) -> u8 {
    match k {
        ParseErrorKind::BlockSizeIsEmpty => K_EMPTY,
        ParseErrorKind::BlockSizeStartsWithZero => K_ZERO,
        ParseErrorKind::BlockSizeIsInvalid => K_INVALID,
        ParseErrorKind::BlockSizeIsTooLarge => K_TOO_LARGE,
        ParseErrorKind::BlockHashIsTooLong => K_TOO_LONG,
        ParseErrorKind::UnexpectedCharacter => K_CHAR,
        ParseErrorKind::UnexpectedEndOfString => K_EOS,
    }
}
fn c04_origin(o: ParseErrorOrigin) -> u8 {
    match o {
        ParseErrorOrigin::BlockSize => O_BS,
        ParseErrorOrigin::BlockHash1 => O_BH1,
        ParseErrorOrigin::BlockHash2 => O_BH2,
    }
}

/// from_bytes_with_last_index on every text of <= T bytes: Ok iff the grammar accepts for
/// this type; decoded content, end index, validity; on Err the index is untouched and
/// (kind, origin, offset) name the offending part.
pub(crate) fn c04_driver<const S1: usize, const S2: usize, const NORM: bool, const T: usize>()
where
    BlockHashSize<S1>: ConstrainedBlockHashSize,
    BlockHashSize<S2>: ConstrainedBlockHashSize,
    BlockHashSizes<S1, S2>: ConstrainedBlockHashSizes,
{
    c04_driver_n::<S1, S2, NORM, T>(any_len(T))
}
/// ... with the text length given (a concrete length makes the query several times cheaper;
/// the quick tier runs one query per length).
pub(crate) fn c04_driver_n<const S1: usize, const S2: usize, const NORM: bool, const T: usize>(n: usize)
where
    BlockHashSize<S1>: ConstrainedBlockHashSize,
    BlockHashSize<S2>: ConstrainedBlockHashSize,
    BlockHashSizes<S1, S2>: ConstrainedBlockHashSizes,
{
    let text: [u8; T] = kani::any();
    let idx0: usize = kani::any();
    let mut idx = idx0;
    let strict = cfg!(feature = "strict-parser");
    let r = <FuzzyHashData<S1, S2, NORM>>::from_bytes_with_last_index(&text[..n], &mut idx);
    let spec = spec_parse_text::<T, S1, S2>(&text, n, NORM, strict || !NORM, strict);
    match r {
        Ok(h) => {
            assert!(spec.ok);
            assert!(idx == spec.end_index);
            assert!(h.log_blocksize == spec.log_block_size);
            assert!(h.len_blockhash1 as usize == spec.len1 && h.len_blockhash2 as usize == spec.len2);
            let mut i = 0;
            while i < S1 {
                assert!(h.blockhash1[i] == if i < spec.len1 { spec.bh1[i] } else { 0 });
                i += 1;
            }
            let mut i = 0;
            while i < S2 {
                assert!(h.blockhash2[i] == if i < spec.len2 { spec.bh2[i] } else { 0 });
                i += 1;
            }
            assert!(spec_valid(&h));
        }
        Err(e) => {
            assert!(!spec.ok);
            assert!(idx == idx0);
            assert!(c04_kind(e.0) == spec.err_kind && c04_origin(e.1) == spec.err_origin && e.2 == spec.err_offset);
        }
    }
    // the convenience entry points agree
    let r2 = <FuzzyHashData<S1, S2, NORM>>::from_bytes(&text[..n]);
    assert!(r2.is_ok() == spec.ok);
    kani::cover!(spec.ok && spec.len1 > 0 && spec.len2 > 0 && spec.end_index < n || n < 7);
    kani::cover!(spec.ok && spec.end_index == n && n == T || n < T || n < 3);
    kani::cover!(!spec.ok && spec.err_origin == O_BH2 && spec.err_kind == K_CHAR || n < 4);
    kani::cover!(!spec.ok && spec.err_origin == O_BH1 && spec.err_kind == K_EOS || n < 2);
}

macro_rules! c04_driver_harness {
    ($name:ident, $s1:literal, $s2:literal, $norm:literal, $t:literal) => {
        #[kani::proof]
        #[kani::unwind(66)]
        fn $name() {
            c04_driver::<$s1, $s2, $norm, $t>()
        }
    };
}
c04_driver_harness!(c04_driver_short_norm_t8, 64, 32, true, 8);
c04_driver_harness!(c04_driver_short_norm_t10, 64, 32, true, 10);
c04_driver_harness!(c04_driver_short_raw_t10, 64, 32, false, 10);
c04_driver_harness!(c04_driver_long_norm_t10, 64, 64, true, 10);
c04_driver_harness!(c04_driver_long_raw_t10, 64, 64, false, 10);
c04_driver_harness!(c04_driver_short_norm_t16, 64, 32, true, 16);
c04_driver_harness!(c04_driver_short_raw_t16, 64, 32, false, 16);
c04_driver_harness!(c04_driver_long_norm_t16, 64, 64, true, 16);
c04_driver_harness!(c04_driver_long_raw_t16, 64, 64, false, 16);

/// Capacity classes end to end: "3:" X ":" Y with X short (<= 2 symbols) and Y of T-6..T
/// arbitrary bytes, so that block hash 2 reaches and exceeds the capacity 32 (short types).
pub(crate) fn c04_capacity_bh2<const S1: usize, const S2: usize, const NORM: bool, const T: usize>()
where
    BlockHashSize<S1>: ConstrainedBlockHashSize,
    BlockHashSize<S2>: ConstrainedBlockHashSize,
    BlockHashSizes<S1, S2>: ConstrainedBlockHashSizes,
{
    let mut text: [u8; T] = kani::any();
    text[0] = b'3';
    text[1] = b':';
    text[2] = b':';
    let n = any_len(T);
    kani::assume(n >= 3);
    let strict = cfg!(feature = "strict-parser");
    let mut idx = 0usize;
    let r = <FuzzyHashData<S1, S2, NORM>>::from_bytes_with_last_index(&text[..n], &mut idx);
    let spec = spec_parse_text::<T, S1, S2>(&text, n, NORM, strict || !NORM, strict);
    match r {
        Ok(h) => {
            assert!(spec.ok && idx == spec.end_index);
            assert!(h.len_blockhash2 as usize == spec.len2 && h.len_blockhash1 == 0 && h.log_blocksize == 0);
            let mut i = 0;
            while i < S2 {
                assert!(h.blockhash2[i] == if i < spec.len2 { spec.bh2[i] } else { 0 });
                i += 1;
            }
            assert!(spec_valid(&h));
        }
        Err(e) => {
            assert!(!spec.ok && idx == 0);
            assert!(c04_kind(e.0) == spec.err_kind && c04_origin(e.1) == spec.err_origin && e.2 == spec.err_offset);
        }
    }
    kani::cover!(spec.ok && spec.len2 == S2);
    kani::cover!(!spec.ok && spec.err_kind == K_TOO_LONG);
    kani::cover!(!NORM || (spec.ok && spec.len2 < n - 3 && n == T));
}

#[kani::proof]
#[kani::unwind(66)]
fn c04_capacity_bh2_short_norm_t40() { c04_capacity_bh2::<64, 32, true, 40>() }
#[kani::proof]
#[kani::unwind(66)]
fn c04_capacity_bh2_short_raw_t40() { c04_capacity_bh2::<64, 32, false, 40>() }

// ---- C14: unchecked constructors agree with the checked ones under their contracts ----
#[cfg(feature = "unchecked")]
#[allow(unsafe_code)]
fn c14_unchecked_constructors<const S1: usize, const S2: usize, const NORM: bool>(m: usize)
where
    BlockHashSize<S1>: ConstrainedBlockHashSize,
    BlockHashSize<S2>: ConstrainedBlockHashSize,
    BlockHashSizes<S1, S2>: ConstrainedBlockHashSizes,
{
    let src = any_hash::<S1, S2, NORM>(m, m);
    let (l1, l2) = (src.len_blockhash1 as usize, src.len_blockhash2 as usize);
    let bs = block_size::from_log(src.log_blocksize).unwrap();
    unsafe {
        let a = <FuzzyHashData<S1, S2, NORM>>::new_from_internals_raw_unchecked(src.log_blocksize, &src.blockhash1, &src.blockhash2, src.len_blockhash1, src.len_blockhash2);
        let mut b = dirty_hash::<S1, S2, NORM>();
        b.init_from_internals_raw_unchecked(src.log_blocksize, &src.blockhash1, &src.blockhash2, src.len_blockhash1, src.len_blockhash2);
        let c = <FuzzyHashData<S1, S2, NORM>>::new_from_internals_near_raw_unchecked(src.log_blocksize, &src.blockhash1[..l1], &src.blockhash2[..l2]);
        let d = <FuzzyHashData<S1, S2, NORM>>::new_from_internals_unchecked(bs, &src.blockhash1[..l1], &src.blockhash2[..l2]);
        assert!(same_obj(&a, &src) && same_obj(&b, &src) && same_obj(&c, &src) && same_obj(&d, &src));
    }
    kani::cover!(l1 == m && l2 == m);
}
#[cfg(feature = "unchecked")]
#[allow(unsafe_code)]
#[kani::proof]
#[kani::unwind(66)]
fn c14_unchecked_constructors_short_norm_m8() { c14_unchecked_constructors::<64, 32, true>(8) }
#[cfg(feature = "unchecked")]
#[allow(unsafe_code)]
#[kani::proof]
#[kani::unwind(66)]
fn c14_unchecked_constructors_long_raw_m8() { c14_unchecked_constructors::<64, 64, false>(8) }
