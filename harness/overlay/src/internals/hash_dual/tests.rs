#![cfg(kani)]
//! Dual hashes: C07 (lossless canonical encoding), and the dual parts of C04 / C11 / C15 / C16.
use super::*;
use crate::internals::hash::tests::{any_hash, any_len, dirty_hash, same_obj, spec_valid};

include!(concat!(env!("CARGO_MANIFEST_DIR"), "/verif_spec/common.rs"));
include!(concat!(env!("CARGO_MANIFEST_DIR"), "/verif_spec/norm.rs"));
include!(concat!(env!("CARGO_MANIFEST_DIR"), "/verif_spec/grammar.rs"));

fn any_syms<const L: usize>(alpha: u8) -> [u8; L] {
    let a: [u8; L] = kani::any();
    let mut i = 0;
    while i < L {
        kani::assume(a[i] < alpha);
        i += 1;
    }
    a
}

fn same_bytes<const N: usize>(a: &[u8; N], b: &[u8; N]) -> bool {
    let mut same = true;
    let mut i = 0;
    while i < N {
        if a[i] != b[i] {
            same = false;
        }
        i += 1;
    }
    same
}

// =====================================================================================
// C07 kernels
// =====================================================================================

/// compress == (spec_norm, spec_rle); the real validity test accepts it; expand gives
/// back the input with a zero tail.  Raw length <= B, unrestricted content (family A).
fn c07_kernel<const N: usize, const C: usize, const B: usize>()
where
    BlockHashSize<N>: ConstrainedBlockHashSize,
    ReconstructionBlockSize<N, C>: ConstrainedReconstructionBlockSize,
{
    let b = B;
    let small = any_syms::<B>(64);
    let mut inp = [0u8; N];
    let mut i = 0;
    while i < B {
        inp[i] = small[i];
        i += 1;
    }
    let n = any_len(b);
    let mut bh: [u8; N] = kani::any(); // dirty outputs
    let mut rle: [u8; C] = kani::any();
    let mut len: u8 = kani::any();
    algorithms::compress_block_hash_with_rle::<N, C>(&mut bh, &mut rle, &mut len, &inp[..n]);
    // (normalized part, RLE block) == (spec_norm, spec_rle); the models run on the B-symbol prefix
    let mut en = [0u8; N];
    let el = spec_norm::<B, N>(&small, n, &mut en);
    let mut er = [0u8; C];
    let rl = spec_rle::<B, C>(&small, n, &mut er);
    assert!(len as usize == el && same_bytes(&bh, &en));
    assert!(rl <= C && same_bytes(&rle, &er));
    assert!(algorithms::is_valid_rle_block_for_block_hash::<N, C>(&bh, &rle, len));
    let mut out: [u8; N] = kani::any();
    let mut olen: u8 = kani::any();
    algorithms::expand_block_hash_using_rle::<N, C>(&mut out, &mut olen, &bh, len, &rle);
    assert!(olen as usize == n);
    let mut i = 0;
    while i < N {
        assert!(out[i] == if i < n { inp[i] } else { 0 });
        i += 1;
    }
    kani::cover!(n == b && rl >= 1);
    kani::cover!(n == b && rl == 0);
    kani::cover!(rl >= 2 || b < 8);
}

macro_rules! c07_kernel_harness {
    ($name:ident, $n:literal, $c:literal, $b:literal) => {
        #[kani::proof]
        #[kani::unwind(66)]
        fn $name() {
            c07_kernel::<$n, $c, $b>()
        }
    };
}
c07_kernel_harness!(c07_kernel32_b6, 32, 8, 6);
c07_kernel_harness!(c07_kernel64_b6, 64, 16, 6);
c07_kernel_harness!(c07_kernel64_b4, 64, 16, 4);
c07_kernel_harness!(c07_kernel32_b8, 32, 8, 8);
c07_kernel_harness!(c07_kernel32_b12, 32, 8, 12);
c07_kernel_harness!(c07_kernel32_b16, 32, 8, 16);
c07_kernel_harness!(c07_kernel64_b8, 64, 16, 8);
c07_kernel_harness!(c07_kernel64_b12, 64, 16, 12);
c07_kernel_harness!(c07_kernel64_b16, 64, 16, 16);

/// Family (B): full capacity, one planted run (symbolic position p, symbolic length r,
/// run-free neighbours): every run length at every position, runs touching both ends
/// and the capacity limit; RLE groups 4,4,...,rest.
fn c07_kernel_planted<const N: usize, const C: usize>()
where
    BlockHashSize<N>: ConstrainedBlockHashSize,
    ReconstructionBlockSize<N, C>: ConstrainedReconstructionBlockSize,
{
    let mut inp = any_syms::<N>(64);
    let n = any_len(N);
    let p = any_len(N);
    let r = any_len(N);
    let sym: u8 = kani::any();
    kani::assume(sym < 64 && r >= 1 && p + r <= n);
    let mut i = 0;
    while i < N {
        if i >= p && i < p + r {
            inp[i] = sym;
        } else if i >= 1 && i < n {
            kani::assume(inp[i] != inp[i - 1]);
        }
        i += 1;
    }
    kani::assume(p == 0 || inp[p - 1] != sym);
    let mut bh: [u8; N] = kani::any();
    let mut rle: [u8; C] = kani::any();
    let mut len: u8 = kani::any();
    algorithms::compress_block_hash_with_rle::<N, C>(&mut bh, &mut rle, &mut len, &inp[..n]);
    let kept = if r > 3 { 3 } else { r };
    assert!(len as usize == n - (r - kept));
    // RLE block: ceil((r-3)/4) symbols at position p+2, groups 4,..,rest, then zeros
    let extra = r - kept;
    let groups = (extra + 3) / 4;
    assert!(groups <= C);
    let mut k = 0;
    while k < C {
        if k < groups {
            let g = if k + 1 < groups { 4 } else { extra - 4 * (groups - 1) };
            assert!(rle[k] == ((p + 2) as u8) | (((g - 1) as u8) << 6));
        } else {
            assert!(rle[k] == 0);
        }
        k += 1;
    }
    assert!(algorithms::is_valid_rle_block_for_block_hash::<N, C>(&bh, &rle, len));
    let mut out: [u8; N] = kani::any();
    let mut olen: u8 = kani::any();
    algorithms::expand_block_hash_using_rle::<N, C>(&mut out, &mut olen, &bh, len, &rle);
    assert!(olen as usize == n);
    let mut i = 0;
    while i < N {
        assert!(out[i] == if i < n { inp[i] } else { 0 });
        i += 1;
    }
    kani::cover!(r == N);
    kani::cover!(groups == C);
    kani::cover!(r == 4 && p + r == n && n == N);
    kani::cover!(r == 7 && p == 0);
}

#[kani::proof]
#[kani::unwind(66)]
fn c07_kernel32_planted() { c07_kernel_planted::<32, 8>() }
#[kani::proof]
#[kani::unwind(66)]
fn c07_kernel64_planted() { c07_kernel_planted::<64, 16>() }

/// update_rle_block for every (offset, pos, len) that fits: writes exactly the groups
/// 4,..,rest at `pos`, returns the next offset, touches nothing else.
fn c07_update_rle<const C: usize>(maxlen: usize) {
    let orig: [u8; C] = kani::any();
    let mut rle = orig;
    let off = any_len(C);
    let pos = any_len(63);
    let len = any_len(maxlen);
    kani::assume(pos >= 1 && len >= 4);
    let groups = (len - 3 + 3) / 4;
    kani::assume(off + groups <= C);
    let next = algorithms::update_rle_block::<C>(&mut rle, off, pos, len);
    assert!(next == off + groups);
    let mut k = 0;
    while k < C {
        if k >= off && k < off + groups {
            let g = if k + 1 < off + groups { 4 } else { (len - 3) - 4 * (groups - 1) };
            assert!(rle[k] == (pos as u8) | (((g - 1) as u8) << 6));
            let (dp, dl) = rle_encoding::decode(rle[k]);
            assert!(dp as usize == pos && dl as usize == g);
        } else {
            assert!(rle[k] == orig[k]);
        }
        k += 1;
    }
    kani::cover!(groups == C && off == 0);
    kani::cover!(groups == 1 && off + 1 == C);
}

#[kani::proof]
#[kani::unwind(20)]
fn c07_update_rle_8() { c07_update_rle::<8>(32) }
#[kani::proof]
#[kani::unwind(20)]
fn c07_update_rle_16() { c07_update_rle::<16>(64) }

/// The validity test accepts ONLY canonical blocks: for an arbitrary RLE block and a
/// valid normalized block hash, accepted => compress(expand(.)) reproduces both.
fn c07_valid_only_canonical<const N: usize, const C: usize>(b: usize)
where
    BlockHashSize<N>: ConstrainedBlockHashSize,
    ReconstructionBlockSize<N, C>: ConstrainedReconstructionBlockSize,
{
    let bh_in: [u8; N] = kani::any();
    let n = any_len(b);
    let mut i = 0;
    while i < N {
        kani::assume(if i < n { bh_in[i] < 64 } else { bh_in[i] == 0 });
        i += 1;
    }
    kani::assume(spec_is_normalized::<N>(&bh_in, n));
    let rle_in: [u8; C] = kani::any();
    // keep the RLE block short so that the expanded string stays <= b + 8
    let mut k = 2;
    while k < C {
        kani::assume(rle_in[k] == 0);
        k += 1;
    }
    if algorithms::is_valid_rle_block_for_block_hash::<N, C>(&bh_in, &rle_in, n as u8) {
        let mut raw = [0u8; N];
        let mut rawlen = 0u8;
        algorithms::expand_block_hash_using_rle::<N, C>(&mut raw, &mut rawlen, &bh_in, n as u8, &rle_in);
        assert!(rawlen as usize <= N);
        let mut bh2 = [0u8; N];
        let mut rle2 = [0u8; C];
        let mut len2 = 0u8;
        algorithms::compress_block_hash_with_rle::<N, C>(&mut bh2, &mut rle2, &mut len2, &raw[..rawlen as usize]);
        assert!(len2 as usize == n && same_bytes(&bh2, &bh_in) && same_bytes(&rle2, &rle_in));
        kani::cover!(rle_in[1] != 0);
        kani::cover!(rle_in[0] != 0 && rle_in[1] == 0);
    }
    kani::cover!(!algorithms::is_valid_rle_block_for_block_hash::<N, C>(&bh_in, &rle_in, n as u8) && rle_in[0] != 0);
}

#[kani::proof]
#[kani::unwind(66)]
fn c07_valid_only_canonical32_b5() { c07_valid_only_canonical::<32, 8>(5) }
#[kani::proof]
#[kani::unwind(66)]
fn c07_valid_only_canonical32_b8() { c07_valid_only_canonical::<32, 8>(8) }
#[kani::proof]
#[kani::unwind(66)]
fn c07_valid_only_canonical64_b8() { c07_valid_only_canonical::<64, 16>(8) }

/// is_valid_rle_block / Debug-less queries on ARBITRARY bytes never panic (C11).
#[kani::proof]
#[kani::unwind(66)]
fn c11_dual_is_valid_total() {
    let d = DualFuzzyHash {
        rle_block1: kani::any(),
        rle_block2: kani::any(),
        norm_hash: dirty_hash::<64, 32, true>(),
    };
    let v = d.is_valid();
    let _ = d.is_normalized();
    if v {
        assert!(spec_valid(&d.norm_hash));
    }
    kani::cover!(v);
    kani::cover!(!v && spec_valid(&d.norm_hash));
}

// =====================================================================================
// Object level (wiring): block hashes <= m symbols
// =====================================================================================

type Short = DualFuzzyHash;
type Long = LongDualFuzzyHash;

fn same_dual<const S1: usize, const S2: usize, const C1: usize, const C2: usize>(
    a: &FuzzyHashDualData<S1, S2, C1, C2>, b: &FuzzyHashDualData<S1, S2, C1, C2>,
) -> bool
where
    BlockHashSize<S1>: ConstrainedBlockHashSize,
    BlockHashSize<S2>: ConstrainedBlockHashSize,
    BlockHashSizes<S1, S2>: ConstrainedBlockHashSizes,
    ReconstructionBlockSize<S1, C1>: ConstrainedReconstructionBlockSize,
    ReconstructionBlockSize<S2, C2>: ConstrainedReconstructionBlockSize,
{
    same_obj(&a.norm_hash, &b.norm_hash) && same_bytes(&a.rle_block1, &b.rle_block1) && same_bytes(&a.rle_block2, &b.rle_block2)
}

/// Every object route from a raw hash builds the same dual hash -- including re-initialising a
/// previously used (dirty) object -- and that hash is valid.
fn c07_object_build<const S1: usize, const S2: usize, const C1: usize, const C2: usize>(m: usize, ctors: bool)
where
    BlockHashSize<S1>: ConstrainedBlockHashSize,
    BlockHashSize<S2>: ConstrainedBlockHashSize,
    BlockHashSizes<S1, S2>: ConstrainedBlockHashSizes,
    ReconstructionBlockSize<S1, C1>: ConstrainedReconstructionBlockSize,
    ReconstructionBlockSize<S2, C2>: ConstrainedReconstructionBlockSize,
{
    let raw = any_hash::<S1, S2, false>(m, m);
    let (l1, l2) = (raw.len_blockhash1 as usize, raw.len_blockhash2 as usize);
    let a = <FuzzyHashDualData<S1, S2, C1, C2>>::from_raw_form(&raw);
    let mut c = FuzzyHashDualData::<S1, S2, C1, C2> { rle_block1: kani::any(), rle_block2: kani::any(), norm_hash: dirty_hash::<S1, S2, true>() };
    c.init_from_raw_form(&raw);
    assert!(same_dual(&a, &c));
    assert!(a.is_valid());
    if ctors {
        let b = <FuzzyHashDualData<S1, S2, C1, C2>>::from(raw);
        let d = <FuzzyHashDualData<S1, S2, C1, C2>>::new_from_internals_near_raw(raw.log_blocksize, &raw.blockhash1[..l1], &raw.blockhash2[..l2]);
        let e = <FuzzyHashDualData<S1, S2, C1, C2>>::new_from_internals(block_size::from_log(raw.log_blocksize).unwrap(), &raw.blockhash1[..l1], &raw.blockhash2[..l2]);
        assert!(same_dual(&a, &b) && same_dual(&a, &d) && same_dual(&a, &e));
        assert!(a.log_block_size() == raw.log_blocksize && a.block_size() as u64 == 3u64 << raw.log_blocksize);
    }
    kani::cover!(l1 == m && l2 == m && a.rle_block1[0] != 0);
    kani::cover!(a.rle_block2[0] == 0 && l2 == m);
}

/// The dual hash decompresses to exactly the raw hash (fresh and dirty destination) and
/// exposes exactly its normalization.
fn c07_object_lossless<const S1: usize, const S2: usize, const C1: usize, const C2: usize>(m: usize)
where
    BlockHashSize<S1>: ConstrainedBlockHashSize,
    BlockHashSize<S2>: ConstrainedBlockHashSize,
    BlockHashSizes<S1, S2>: ConstrainedBlockHashSizes,
    ReconstructionBlockSize<S1, C1>: ConstrainedReconstructionBlockSize,
    ReconstructionBlockSize<S2, C2>: ConstrainedReconstructionBlockSize,
{
    let raw = any_hash::<S1, S2, false>(m, m);
    let a = <FuzzyHashDualData<S1, S2, C1, C2>>::from_raw_form(&raw);
    let back = a.to_raw_form();
    let mut back2 = dirty_hash::<S1, S2, false>();
    a.into_mut_raw_form(&mut back2);
    assert!(same_obj(&back, &raw) && same_obj(&back2, &raw));
    let norm = raw.normalize();
    assert!(same_obj(a.as_normalized(), &norm) && same_obj(&a.to_normalized(), &norm));
    assert!(same_obj(<FuzzyHashDualData<S1, S2, C1, C2> as AsRef<FuzzyHashData<S1, S2, true>>>::as_ref(&a), &norm));
    assert!(a.is_normalized() == raw.is_normalized());
    kani::cover!(!raw.is_normalized() && raw.len_blockhash1 as usize == m);
    kani::cover!(raw.is_normalized() && raw.len_blockhash2 as usize == m);
}

/// Clearing the reverse-normalization data yields the dual of the normalized hash.
fn c07_object_cleared<const S1: usize, const S2: usize, const C1: usize, const C2: usize>(m: usize)
where
    BlockHashSize<S1>: ConstrainedBlockHashSize,
    BlockHashSize<S2>: ConstrainedBlockHashSize,
    BlockHashSizes<S1, S2>: ConstrainedBlockHashSizes,
    ReconstructionBlockSize<S1, C1>: ConstrainedReconstructionBlockSize,
    ReconstructionBlockSize<S2, C2>: ConstrainedReconstructionBlockSize,
{
    let raw = any_hash::<S1, S2, false>(m, m);
    let norm = raw.normalize();
    let mut cleared = <FuzzyHashDualData<S1, S2, C1, C2>>::from_raw_form(&raw);
    cleared.normalize_in_place();
    let from_norm = <FuzzyHashDualData<S1, S2, C1, C2>>::from_normalized(&norm);
    let from_norm2 = <FuzzyHashDualData<S1, S2, C1, C2>>::from(norm);
    let from_norm_raw = <FuzzyHashDualData<S1, S2, C1, C2>>::from_raw_form(&norm.to_raw_form());
    assert!(same_dual(&cleared, &from_norm) && same_dual(&cleared, &from_norm2) && same_dual(&cleared, &from_norm_raw));
    assert!(cleared.is_valid() && cleared.is_normalized());
    assert!(same_obj(&cleared.to_raw_form(), &norm));
    let fresh = <FuzzyHashDualData<S1, S2, C1, C2>>::new();
    let dflt = <FuzzyHashDualData<S1, S2, C1, C2>>::default();
    assert!(fresh.is_valid() && same_dual(&fresh, &dflt));
    kani::cover!(!raw.is_normalized());
}

macro_rules! c07_object_harness {
    ($name:ident, $f:ident, $s1:literal, $s2:literal, $c1:literal, $c2:literal, $m:literal) => {
        #[kani::proof]
        #[kani::unwind(66)]
        fn $name() {
            $f::<$s1, $s2, $c1, $c2>($m)
        }
    };
    ($name:ident, $f:ident, $s1:literal, $s2:literal, $c1:literal, $c2:literal, $m:literal, $x:literal) => {
        #[kani::proof]
        #[kani::unwind(66)]
        fn $name() {
            $f::<$s1, $s2, $c1, $c2>($m, $x)
        }
    };
}
c07_object_harness!(c07_object_build_short_m4, c07_object_build, 64, 32, 16, 8, 4, false);
c07_object_harness!(c07_object_build_short_m5, c07_object_build, 64, 32, 16, 8, 5, true);
c07_object_harness!(c07_object_build_short_m8, c07_object_build, 64, 32, 16, 8, 8, true);
c07_object_harness!(c07_object_build_long_m8, c07_object_build, 64, 64, 16, 16, 8, true);
c07_object_harness!(c07_object_build_short_m12, c07_object_build, 64, 32, 16, 8, 12, true);
c07_object_harness!(c07_object_lossless_short_m5, c07_object_lossless, 64, 32, 16, 8, 5);
c07_object_harness!(c07_object_lossless_short_m8, c07_object_lossless, 64, 32, 16, 8, 8);
c07_object_harness!(c07_object_lossless_long_m8, c07_object_lossless, 64, 64, 16, 16, 8);
c07_object_harness!(c07_object_cleared_short_m5, c07_object_cleared, 64, 32, 16, 8, 5);
c07_object_harness!(c07_object_cleared_short_m8, c07_object_cleared, 64, 32, 16, 8, 8);
c07_object_harness!(c07_object_cleared_long_m8, c07_object_cleared, 64, 64, 16, 16, 8);

/// Eq / Ord of dual hashes on ARBITRARY reverse-normalization bytes and arbitrary valid
/// normalized parts: equality is field equality, the order is total and antisymmetric,
/// 'Equal' coincides with ==, and different normalized parts order exactly as those parts do.
/// (That equal raw hashes give equal dual hashes whichever route built them is the
/// canonical-form result of C07.)
fn c16_dual_pair<const S1: usize, const S2: usize, const C1: usize, const C2: usize>(m: usize)
where
    BlockHashSize<S1>: ConstrainedBlockHashSize,
    BlockHashSize<S2>: ConstrainedBlockHashSize,
    BlockHashSizes<S1, S2>: ConstrainedBlockHashSizes,
    ReconstructionBlockSize<S1, C1>: ConstrainedReconstructionBlockSize,
    ReconstructionBlockSize<S2, C2>: ConstrainedReconstructionBlockSize,
{
    use core::cmp::Ordering;
    let a = FuzzyHashDualData::<S1, S2, C1, C2> { rle_block1: kani::any(), rle_block2: kani::any(), norm_hash: any_hash::<S1, S2, true>(m, m) };
    let b = FuzzyHashDualData::<S1, S2, C1, C2> { rle_block1: kani::any(), rle_block2: kani::any(), norm_hash: any_hash::<S1, S2, true>(m, m) };
    assert!((a == b) == same_dual(&a, &b));
    let o = a.cmp(&b);
    assert!((o == Ordering::Equal) == (a == b));
    let rev = b.cmp(&a);
    assert!((o == Ordering::Less) == (rev == Ordering::Greater) && (o == Ordering::Greater) == (rev == Ordering::Less));
    assert!(a.partial_cmp(&b) == Some(o));
    if a.norm_hash != b.norm_hash {
        assert!(o == a.norm_hash.cmp(&b.norm_hash));
    }
    kani::cover!(a == b && a.rle_block1[0] != 0);
    kani::cover!(a != b && a.norm_hash == b.norm_hash);
    kani::cover!(a.norm_hash != b.norm_hash && o == Ordering::Greater);
}

#[kani::proof]
#[kani::unwind(66)]
fn c16_dual_pair_short_m8() { c16_dual_pair::<64, 32, 16, 8>(8) }
#[kani::proof]
#[kani::unwind(66)]
fn c16_dual_pair_long_m8() { c16_dual_pair::<64, 64, 16, 16>(8) }
#[kani::proof]
#[kani::unwind(66)]
fn c16_dual_pair_long_m4_40() { c16_dual_pair::<64, 64, 16, 16>(40) }

/// Route independence: dual hashes built from raw hashes are equal iff the raw hashes are.
#[kani::proof]
#[kani::unwind(66)]
fn c16_dual_equal_iff_raw_equal_m5() {
    let ra = any_hash::<64, 32, false>(5, 5);
    let rb = any_hash::<64, 32, false>(5, 5);
    let a = Short::from_raw_form(&ra);
    let b = Short::from_raw_form(&rb);
    assert!((a == b) == (ra == rb));
    kani::cover!(a == b && !ra.is_normalized());
    kani::cover!(a != b && a.norm_hash == b.norm_hash);
}

/// Hash trait: equal dual hashes feed identical data to the hasher.
struct RecHasher {
    log: [u8; 200],
    n: usize,
    calls: usize,
}
impl core::hash::Hasher for RecHasher {
    fn finish(&self) -> u64 {
        0
    }
    fn write(&mut self, bytes: &[u8]) {
        let mut i = 0;
        while i < bytes.len() {
            if self.n < 200 {
                self.log[self.n] = bytes[i];
            }
            self.n += 1;
            i += 1;
        }
        if self.n < 200 {
            self.log[self.n] = 0xee;
        }
        self.n += 1;
        self.calls += 1;
    }
}

#[kani::proof]
#[kani::unwind(210)]
fn c16_dual_hash_short_m8() {
    use core::hash::Hash;
    let ra = any_hash::<64, 32, false>(8, 8);
    let rb = any_hash::<64, 32, false>(8, 8);
    let a = Short::from_raw_form(&ra);
    let b = Short::from_raw_form(&rb);
    if a == b {
        let mut ha = RecHasher { log: [0; 200], n: 0, calls: 0 };
        let mut hb = RecHasher { log: [0; 200], n: 0, calls: 0 };
        a.hash(&mut ha);
        b.hash(&mut hb);
        assert!(ha.n == hb.n && ha.calls == hb.calls && same_bytes(&ha.log, &hb.log));
        kani::cover!(ha.n > 30);
    }
}

/// transitivity for dual hashes sharing / not sharing a normalized part
#[kani::proof]
#[kani::unwind(66)]
fn c16_dual_triple_short_m6() {
    let a = Short::from_raw_form(&any_hash::<64, 32, false>(6, 6));
    let b = Short::from_raw_form(&any_hash::<64, 32, false>(6, 6));
    let c = Short::from_raw_form(&any_hash::<64, 32, false>(6, 6));
    if a <= b && b <= c {
        assert!(a <= c);
    }
    if a < b && b < c {
        assert!(a < c);
    }
    kani::cover!(a < b && b < c && a.norm_hash == c.norm_hash);
}

/// Out-of-contract constructor arguments: returned => valid (tagged assertion).
fn c11_dual_ooc<const S1: usize, const S2: usize, const C1: usize, const C2: usize>()
where
    BlockHashSize<S1>: ConstrainedBlockHashSize,
    BlockHashSize<S2>: ConstrainedBlockHashSize,
    BlockHashSizes<S1, S2>: ConstrainedBlockHashSizes,
    ReconstructionBlockSize<S1, C1>: ConstrainedReconstructionBlockSize,
    ReconstructionBlockSize<S2, C2>: ConstrainedReconstructionBlockSize,
{
    let bs: u32 = kani::any();
    let b1: [u8; 6] = kani::any();
    let b2: [u8; 6] = kani::any();
    let (n1, n2) = (any_len(6), any_len(6));
    let h = <FuzzyHashDualData<S1, S2, C1, C2>>::new_from_internals(bs, &b1[..n1], &b2[..n2]);
    kani::assert(h.is_valid() && spec_valid(&h.norm_hash), "VERIF_TAG returned_implies_valid");
    kani::cover!(n1 == 6 && n2 == 6);
}

#[kani::proof]
#[kani::unwind(66)]
fn c11_dual_ooc_short() { c11_dual_ooc::<64, 32, 16, 8>() }

#[kani::proof]
#[kani::unwind(66)]
fn c11_dual_ooc_near_raw_short() {
    let log: u8 = kani::any();
    let b1: [u8; 6] = kani::any();
    let b2: [u8; 6] = kani::any();
    let (n1, n2) = (any_len(6), any_len(6));
    let h = Short::new_from_internals_near_raw(log, &b1[..n1], &b2[..n2]);
    kani::assert(h.is_valid() && spec_valid(&h.norm_hash), "VERIF_TAG returned_implies_valid");
}

// =====================================================================================
// C04: dual parser == raw parser followed by compression; capacity counted on the raw text
// =====================================================================================

fn d_kind(k: ParseErrorKind) -> u8 {
    match k {
        ParseErrorKind::BlockSizeIsEmpty => K_EMPTY,
        ParseErrorKind::BlockSizeStartsWithZero => K_ZERO,
        ParseErrorKind::BlockSizeIsInvalid => K_INVALID,
        ParseErrorKind::BlockSizeIsTooLarge => K_TOO_LARGE,
        ParseErrorKind::BlockHashIsTooLong => K_TOO_LONG,
        ParseErrorKind::UnexpectedCharacter => K_CHAR,
        ParseErrorKind::UnexpectedEndOfString => K_EOS,
    }
}
fn d_origin(o: ParseErrorOrigin) -> u8 {
    match o {
        ParseErrorOrigin::BlockSize => O_BS,
        ParseErrorOrigin::BlockHash1 => O_BH1,
        ParseErrorOrigin::BlockHash2 => O_BH2,
    }
}
use crate::internals::hash::parser_state::{ParseErrorKind, ParseErrorOrigin};

/// Dual parser on every text of <= T bytes: accepts exactly what the RAW grammar accepts
/// (capacity on the raw text), the object is valid, decompresses to the decoded raw
/// content, the index is the comma / end; on failure the index is untouched.
fn c04_dual_driver<const S1: usize, const S2: usize, const C1: usize, const C2: usize, const T: usize>(fixed_prefix: bool, runfree: usize, light: bool)
where
    BlockHashSize<S1>: ConstrainedBlockHashSize,
    BlockHashSize<S2>: ConstrainedBlockHashSize,
    BlockHashSizes<S1, S2>: ConstrainedBlockHashSizes,
    ReconstructionBlockSize<S1, C1>: ConstrainedReconstructionBlockSize,
    ReconstructionBlockSize<S2, C2>: ConstrainedReconstructionBlockSize,
{
    let mut text: [u8; T] = kani::any();
    let n = any_len(T);
    if fixed_prefix {
        text[0] = b'3';
        text[1] = b':';
        text[2] = b':';
        kani::assume(n >= 3 + runfree);
        // structured family: `runfree` CONCRETE pairwise different base64 characters (the parser's work on
        // them folds to constants), then a free tail
        const PREFIX: &[u8; 64] = b"ABCDEFGHIJKLMNOPQRSTUVWXYZabcdefghijklmnopqrstuvwxyz0123456789+/";
        let mut i = 0;
        while i < T {
            if i >= 3 && i < 3 + runfree {
                text[i] = PREFIX[(i - 3) % 64];
            }
            i += 1;
        }
    }
    let idx0: usize = kani::any();
    let mut idx = idx0;
    let strict = cfg!(feature = "strict-parser");
    let r = <FuzzyHashDualData<S1, S2, C1, C2>>::from_bytes_with_last_index(&text[..n], &mut idx);
    // raw grammar: no collapsing, capacity on the raw text
    let spec = spec_parse_text::<T, S1, S2>(&text, n, false, true, strict);
    match r {
        Ok(h) => {
            assert!(spec.ok);
            assert!(idx == spec.end_index);
            assert!(h.is_valid());
            assert!(h.norm_hash.log_blocksize == spec.log_block_size);
            if !light {
                // lossless: decompresses to exactly the decoded raw content
                let raw = h.to_raw_form();
                assert!(raw.log_blocksize == spec.log_block_size);
                assert!(raw.len_blockhash1 as usize == spec.len1 && raw.len_blockhash2 as usize == spec.len2);
                let mut i = 0;
                while i < S1 {
                    assert!(raw.blockhash1[i] == if i < spec.len1 { spec.bh1[i] } else { 0 });
                    i += 1;
                }
                let mut i = 0;
                while i < S2 {
                    assert!(raw.blockhash2[i] == if i < spec.len2 { spec.bh2[i] } else { 0 });
                    i += 1;
                }
            } else {
                // light variant (long texts): accepted set, validity, and the normalized lengths
                let mut e1 = [0u8; S1];
                let mut e2 = [0u8; S2];
                let n1 = spec_norm::<S1, S1>(&spec.bh1, spec.len1, &mut e1);
                let n2 = spec_norm::<S2, S2>(&spec.bh2, spec.len2, &mut e2);
                assert!(h.norm_hash.len_blockhash1 as usize == n1 && h.norm_hash.len_blockhash2 as usize == n2);
            }
        }
        Err(e) => {
            assert!(!spec.ok);
            assert!(idx == idx0);
            assert!(d_kind(e.0) == spec.err_kind && d_origin(e.1) == spec.err_origin && e.2 == spec.err_offset);
        }
    }
    kani::cover!(spec.ok && spec.len2 >= 4 && n == T);
    kani::cover!(!spec.ok && spec.err_kind == K_TOO_LONG);
    kani::cover!(!spec.ok && spec.err_kind == K_CHAR);
}

/// The dual parser accepts exactly what the RAW parser of the same capacity accepts, with the
/// same end index and the same error (kind, origin, offset) -- real dual parser vs. real raw
/// parser on every text "3::" + <= T-3 arbitrary bytes.  (That the raw parser implements the
/// grammar is decided by the C04 kernel / driver / capacity queries; that a dual hash built from
/// a raw hash is valid and lossless by C07.)
fn c04_dual_like_raw<const S1: usize, const S2: usize, const C1: usize, const C2: usize, const T: usize>(fixed: usize, full: bool)
where
    BlockHashSize<S1>: ConstrainedBlockHashSize,
    BlockHashSize<S2>: ConstrainedBlockHashSize,
    BlockHashSizes<S1, S2>: ConstrainedBlockHashSizes,
    ReconstructionBlockSize<S1, C1>: ConstrainedReconstructionBlockSize,
    ReconstructionBlockSize<S2, C2>: ConstrainedReconstructionBlockSize,
{
    // "3::" + (fixed - 3) concrete run-free symbols + (T - fixed) arbitrary bytes, any length
    // n in fixed..=T; fixed == 0: everything arbitrary.
    const PREFIX: &[u8; 64] = b"ABCDEFGHIJKLMNOPQRSTUVWXYZabcdefghijklmnopqrstuvwxyz0123456789+/";
    let mut text: [u8; T] = kani::any();
    let n = if full { T } else { any_len(T) };
    if fixed >= 3 {
        text[0] = b'3';
        text[1] = b':';
        text[2] = b':';
        let mut i = 3;
        while i < fixed {
            text[i] = PREFIX[(i - 3) % 64];
            i += 1;
        }
        kani::assume(n >= fixed);
    }
    let (mut i1, mut i2) = (0usize, 0usize);
    let d = <FuzzyHashDualData<S1, S2, C1, C2>>::from_bytes_with_last_index(&text[..n], &mut i1);
    let r = <FuzzyHashData<S1, S2, false>>::from_bytes_with_last_index(&text[..n], &mut i2);
    assert!(d.is_ok() == r.is_ok());
    assert!(i1 == i2);
    match (d, r) {
        (Ok(h), Ok(raw)) => {
            assert!(h.norm_hash.log_blocksize == raw.log_blocksize);
            assert!(h.norm_hash.len_blockhash1 <= raw.len_blockhash1 && h.norm_hash.len_blockhash2 <= raw.len_blockhash2);
        }
        (Err(a), Err(b)) => assert!(a == b),
        _ => assert!(false),
    }
    kani::cover!(r.is_ok() && n == T);
    kani::cover!(r.is_err() && n == T);
}
/// Cheap stand-in for `compress_block_hash_with_rle` (Kani stubbing): checks the precondition the
/// real one relies on (input no longer than the block hash buffer -- a `debug_assert!` only in
/// the crate) and returns an arbitrary length not above the input length.  What the real
/// function computes for such inputs is decided by the C07 kernel queries.
fn stub_compress<const SZ_BH: usize, const SZ_RLE: usize>(
    _blockhash_out: &mut [u8; SZ_BH],
    _rle_block_out: &mut [u8; SZ_RLE],
    blockhash_len_out: &mut u8,
    blockhash_in: &[u8],
) where
    BlockHashSize<SZ_BH>: ConstrainedBlockHashSize,
    ReconstructionBlockSize<SZ_BH, SZ_RLE>: ConstrainedReconstructionBlockSize,
{
    kani::assert(blockhash_in.len() <= SZ_BH, "VERIF compress precondition");
    let l: u8 = kani::any();
    kani::assume((l as usize) <= blockhash_in.len());
    *blockhash_len_out = l;
    let mut i = 0;
    while i < SZ_RLE {
        _rle_block_out[i] = rle_encoding::TERMINATOR;
        i += 1;
    }
}
/// raw length a (norm length, RLE block) pair stands for: norm length + the run extensions
fn spec_raw_len<const C: usize>(len: u8, rle: &[u8; C]) -> usize {
    let mut total = len as usize;
    let mut i = 0;
    while i < C {
        if rle[i] & 0x3f != 0 {
            total += ((rle[i] >> 6) as usize) + 1;
        }
        i += 1;
    }
    total
}
/// The dual parser returns only objects whose block hashes, expanded, fit their capacity
/// ("3::" + <= 37 arbitrary bytes: block hash 2 of the short form reaches and exceeds 32).
#[kani::proof]
#[kani::unwind(66)]
#[kani::stub(crate::internals::hash_dual::algorithms::compress_block_hash_with_rle, stub_compress)]
fn c04_dual_accept_within_capacity_t40() {
    let mut text: [u8; 40] = kani::any();
    let n = any_len(40);
    text[0] = b'3';
    text[1] = b':';
    text[2] = b':';
    kani::assume(n >= 3);
    let d = <FuzzyHashDualData<64, 32, 16, 8>>::from_bytes(&text[..n]);
    if let Ok(h) = d {
        assert!(spec_raw_len(h.norm_hash.len_blockhash1, &h.rle_block1) <= 64);
        assert!(spec_raw_len(h.norm_hash.len_blockhash2, &h.rle_block2) <= 32);
        kani::cover!(n == 35);
    }
    kani::cover!(d.is_err() && n == 40);
}
/// the same on texts of the FIXED length 40 ("3::" + 37 arbitrary bytes; shorter block hashes
/// appear with a ",file name" tail, which the parser ignores)
#[kani::proof]
#[kani::unwind(66)]
#[kani::stub(crate::internals::hash_dual::algorithms::compress_block_hash_with_rle, stub_compress)]
fn c04_dual_accept_within_capacity_fixed40() {
    let mut text: [u8; 40] = kani::any();
    text[0] = b'3';
    text[1] = b':';
    text[2] = b':';
    let d = <FuzzyHashDualData<64, 32, 16, 8>>::from_bytes(&text);
    if let Ok(h) = d {
        assert!(spec_raw_len(h.norm_hash.len_blockhash1, &h.rle_block1) <= 64);
        assert!(spec_raw_len(h.norm_hash.len_blockhash2, &h.rle_block2) <= 32);
        kani::cover!(h.norm_hash.len_blockhash2 == 32);
    }
    kani::cover!(d.is_err());
}
/// the same with "3::" + a fixed prefix of P symbols (a run of one symbol when `run`, else
/// run-free) + arbitrary bytes up to the fixed length 40: cheap, because symbolic execution
/// constant-folds the parser's state over the fixed part; the free tail crosses the capacity.
fn c04_dual_capacity_prefix<const P: usize, const T: usize>(run: bool) {
    const SYMS: &[u8; 32] = b"ABCDEFGHIJKLMNOPQRSTUVWXYZabcdef";
    let mut text: [u8; T] = kani::any();
    text[0] = b'3';
    text[1] = b':';
    text[2] = b':';
    let mut i = 0;
    while i < P {
        text[3 + i] = if run { b'A' } else { SYMS[i % 32] };
        i += 1;
    }
    let d = <FuzzyHashDualData<64, 32, 16, 8>>::from_bytes(&text);
    if let Ok(h) = d {
        assert!(spec_raw_len(h.norm_hash.len_blockhash1, &h.rle_block1) <= 64);
        assert!(spec_raw_len(h.norm_hash.len_blockhash2, &h.rle_block2) <= 32);
        kani::cover!(true);
    }
    kani::cover!(d.is_err());
}
#[kani::proof]
#[kani::unwind(66)]
#[kani::stub(crate::internals::hash_dual::algorithms::compress_block_hash_with_rle, stub_compress)]
fn c04_dual_capacity_prefix_run29() { c04_dual_capacity_prefix::<29, 40>(true) }
#[kani::proof]
#[kani::unwind(66)]
#[kani::stub(crate::internals::hash_dual::algorithms::compress_block_hash_with_rle, stub_compress)]
fn c04_dual_capacity_prefix_runfree29() { c04_dual_capacity_prefix::<29, 40>(false) }
#[kani::proof]
#[kani::unwind(66)]
#[kani::stub(crate::internals::hash_dual::algorithms::compress_block_hash_with_rle, stub_compress)]
fn c04_dual_capacity_prefix_run29_t36() { c04_dual_capacity_prefix::<29, 36>(true) }
#[kani::proof]
#[kani::unwind(66)]
#[kani::stub(crate::internals::hash_dual::algorithms::compress_block_hash_with_rle, stub_compress)]
fn c04_dual_capacity_prefix_runfree29_t36() { c04_dual_capacity_prefix::<29, 36>(false) }

#[kani::proof]
#[kani::unwind(66)]
#[kani::stub(crate::internals::hash_dual::algorithms::compress_block_hash_with_rle, stub_compress)]
fn c04_dual_like_raw_short_fixed40() { c04_dual_like_raw::<64, 32, 16, 8, 40>(3, true) }
#[kani::proof]
#[kani::unwind(66)]
#[kani::stub(crate::internals::hash_dual::algorithms::compress_block_hash_with_rle, stub_compress)]
fn c04_dual_like_raw_short_t40() { c04_dual_like_raw::<64, 32, 16, 8, 40>(3, false) }
#[kani::proof]
#[kani::unwind(66)]
#[kani::stub(crate::internals::hash_dual::algorithms::compress_block_hash_with_rle, stub_compress)]
fn c04_dual_like_raw_short_t12() { c04_dual_like_raw::<64, 32, 16, 8, 12>(0, false) }
#[kani::proof]
#[kani::unwind(66)]
#[kani::stub(crate::internals::hash_dual::algorithms::compress_block_hash_with_rle, stub_compress)]
fn c04_dual_like_raw_long_t12() { c04_dual_like_raw::<64, 64, 16, 16, 12>(0, false) }
/// 62 fixed symbols + 5 arbitrary bytes: block hash 2 of the long form around its capacity
#[kani::proof]
#[kani::unwind(90)]
#[kani::stub(crate::internals::hash_dual::algorithms::compress_block_hash_with_rle, stub_compress)]
fn c04_dual_like_raw_long_cap64() { c04_dual_like_raw::<64, 64, 16, 16, 70>(65, true) }

#[kani::proof]
#[kani::unwind(66)]
fn c04_dual_driver_short_t10() { c04_dual_driver::<64, 32, 16, 8, 10>(false, 0, false) }
#[kani::proof]
#[kani::unwind(66)]
fn c04_dual_driver_long_t10() { c04_dual_driver::<64, 64, 16, 16, 10>(false, 0, false) }
#[kani::proof]
#[kani::unwind(66)]
fn c04_dual_driver_short_t14() { c04_dual_driver::<64, 32, 16, 8, 14>(false, 0, false) }
/// capacity class: "3::" + up to 37 arbitrary bytes (block hash 2 reaches / exceeds 32)
#[kani::proof]
#[kani::unwind(66)]
fn c04_dual_capacity_bh2_short_t40() { c04_dual_driver::<64, 32, 16, 8, 40>(true, 0, true) }
/// capacity class, cheaply: "3::" + 29 run-free symbols + every byte string of <= 8 bytes
#[kani::proof]
#[kani::unwind(66)]
fn c04_dual_capacity_bh2_short_tail() { c04_dual_driver::<64, 32, 16, 8, 40>(true, 29, true) }
#[kani::proof]
#[kani::unwind(66)]
fn c04_dual_capacity_bh2_short_t37() { c04_dual_driver::<64, 32, 16, 8, 37>(true, 0, true) }
