// Reference models for run collapsing (C06), run-length data (C07) and the text grammar
// of one block hash (C04), written from the property statements with a LOCAL criterion:
// raw symbol i is dropped iff its three predecessors in the raw string equal it.
// All loops have constant trip counts (T), guarded by the symbolic length.

/// keep[i] for i < m (false beyond).
#[allow(dead_code)]
fn spec_keep<const T: usize>(s: &[u8; T], m: usize) -> [bool; T] {
    let mut keep = [false; T];
    let mut i = 0;
    while i < T {
        if i < m {
            keep[i] = !(i >= 3 && s[i - 1] == s[i] && s[i - 2] == s[i] && s[i - 3] == s[i]);
        }
        i += 1;
    }
    keep
}

/// Collapse runs > 3 to 3: out[..len] = kept symbols of s[..m] in order; returns len.
/// `cap`: stop storing after `cap` kept symbols (capacity), still counting.
#[allow(dead_code)]
fn spec_norm<const T: usize, const N: usize>(s: &[u8; T], m: usize, out: &mut [u8; N]) -> usize {
    let keep = spec_keep::<T>(s, m);
    let mut len = 0usize;
    let mut i = 0;
    while i < T {
        if keep[i] {
            if len < N {
                out[len] = s[i];
            }
            len += 1;
        }
        i += 1;
    }
    len
}

/// true iff s[..m] contains no run of 4 identical symbols.
#[allow(dead_code)]
fn spec_is_normalized<const T: usize>(s: &[u8; T], m: usize) -> bool {
    let keep = spec_keep::<T>(s, m);
    let mut ok = true;
    let mut i = 0;
    while i < T {
        if i < m && !keep[i] {
            ok = false;
        }
        i += 1;
    }
    ok
}

/// Maximal runs of length >= 4 in s[..m]: for the k-th such run (in order)
/// start_raw[k], len[k], and start_norm[k] = index of its first symbol in the collapsed
/// string.  Returns the number of such runs.  R = capacity of the output arrays.
#[allow(dead_code)]
fn spec_long_runs<const T: usize, const R: usize>(
    s: &[u8; T], m: usize, start_norm: &mut [usize; R], run_len: &mut [usize; R],
) -> usize {
    let keep = spec_keep::<T>(s, m);
    let mut count = 0usize;
    let mut kept_before = 0usize; // number of kept symbols before index i
    let mut cur_len = 0usize;     // length of the run ending at i-1
    let mut cur_start_norm = 0usize;
    let mut i = 0;
    while i < T {
        if i < m {
            let new_run = i == 0 || s[i - 1] != s[i];
            if new_run {
                if cur_len >= 4 {
                    if count < R {
                        start_norm[count] = cur_start_norm;
                        run_len[count] = cur_len;
                    }
                    count += 1;
                }
                cur_len = 1;
                cur_start_norm = kept_before;
            } else {
                cur_len += 1;
            }
            if keep[i] {
                kept_before += 1;
            }
        }
        i += 1;
    }
    if cur_len >= 4 {
        if count < R {
            start_norm[count] = cur_start_norm;
            run_len[count] = cur_len;
        }
        count += 1;
    }
    count
}

/// Canonical RLE block for s[..m] (C07): for each long run, position = index of the LAST
/// kept symbol of the run in the collapsed string (start_norm + 2), extra = len - 3 symbols
/// encoded as groups 4,4,...,rest (rest in 1..=4); byte = pos | ((group-1) << 6); zero filled.
/// Returns the number of RLE symbols needed (may exceed C: then the block is not representable).
#[allow(dead_code)]
fn spec_rle<const T: usize, const C: usize>(s: &[u8; T], m: usize, out: &mut [u8; C]) -> usize {
    let mut sn = [0usize; 16];
    let mut rl = [0usize; 16];
    let nruns = spec_long_runs::<T, 16>(s, m, &mut sn, &mut rl);
    let mut k = 0usize;
    let mut r = 0;
    while r < 16 {
        if r < nruns {
            let pos = sn[r] + 2;
            let mut extra = rl[r] - 3;
            // at most T/4 groups per run
            let mut g = 0;
            while g < (T + 3) / 4 {
                if extra > 0 {
                    let grp = if extra >= 4 { 4 } else { extra };
                    if k < C {
                        out[k] = (pos as u8) | (((grp - 1) as u8) << 6);
                    }
                    k += 1;
                    extra -= grp;
                }
                g += 1;
            }
        }
        r += 1;
    }
    k
}
