// Reference model of the fuzzy-hash text grammar (C04), written from the property
// statement:  <one of the 31 block sizes in canonical decimal> ':' <b64*> ':' <b64*> [',' ...]
// Requires norm.rs to be included first.

const K_EMPTY: u8 = 1;
const K_ZERO: u8 = 2;
const K_INVALID: u8 = 3;
const K_TOO_LARGE: u8 = 4;
const K_TOO_LONG: u8 = 5;
const K_CHAR: u8 = 6;
const K_EOS: u8 = 7;

const S_EOS: u8 = 1;
const S_COMMA: u8 = 2;
const S_COLON: u8 = 3;
const S_OVERFLOW: u8 = 4;
const S_B64: u8 = 5;

/// value of a base64 character, 0x40 for every other byte (independent of the crate's table)
#[allow(dead_code)]
fn spec_b64(c: u8) -> u8 {
    if c >= b'A' && c <= b'Z' {
        c - b'A'
    } else if c >= b'a' && c <= b'z' {
        c - b'a' + 26
    } else if c >= b'0' && c <= b'9' {
        c - b'0' + 52
    } else if c == b'+' {
        62
    } else if c == b'/' {
        63
    } else {
        0x40
    }
}

#[allow(dead_code)]
struct SpecBlockSize {
    ok: bool,
    value: u64,
    consumed: usize,
    err_kind: u8,
    err_offset: usize,
}

/// Block size field of text[..n] (T <= 18 so that the value fits u64).
#[allow(dead_code)]
fn spec_block_size_field<const T: usize>(text: &[u8; T], n: usize) -> SpecBlockSize {
    // k = index of the first non-digit (n if none); value of the digits before it
    let mut k = n;
    let mut value = 0u64;
    let mut i = 0;
    while i < T {
        if i < n && k == n {
            if text[i] >= b'0' && text[i] <= b'9' {
                value = value * 10 + (text[i] - b'0') as u64;
            } else {
                k = i;
            }
        }
        i += 1;
    }
    let err = |kind: u8, off: usize| SpecBlockSize { ok: false, value: 0, consumed: 0, err_kind: kind, err_offset: off };
    if k >= 1 && text[0] == b'0' {
        return err(K_ZERO, 0);
    }
    if k == n {
        return err(K_EOS, n);
    }
    if text[k] != b':' {
        return err(K_CHAR, k);
    }
    if k == 0 {
        return err(K_EMPTY, 0);
    }
    if value > u32::MAX as u64 {
        return err(K_TOO_LARGE, 0);
    }
    // valid iff 3 * 2^j for some j < 31
    let mut valid = false;
    let mut j = 0;
    while j < 31 {
        if value == (3u64 << j) {
            valid = true;
        }
        j += 1;
    }
    if !valid {
        return err(K_INVALID, 0);
    }
    SpecBlockSize { ok: true, value, consumed: k + 1, err_kind: 0, err_offset: 0 }
}

#[allow(dead_code)]
struct SpecBlockHash<const N: usize> {
    state: u8,
    consumed: usize,
    stored: [u8; N],
    stored_len: usize,
    nruns: usize,
    run_pos: [usize; 24],
    run_len: [usize; 24],
}

/// One block-hash field of text[..n] for capacity N.
/// normalize: runs > 3 collapse while parsing and capacity is counted on the collapsed
/// string (default parser) -- unless `raw_capacity`, where it is counted on the raw text
/// (raw and dual types; every type under the strict parser).
/// The reported runs are the maximal runs of >= 4 symbols inside the consumed part
/// (start position in the stored string, raw length).
#[allow(dead_code)]
fn spec_block_hash_field<const T: usize, const N: usize>(
    text: &[u8; T], n: usize, normalize: bool, raw_capacity: bool, strict_quirk: bool,
) -> SpecBlockHash<N> {
    // m = number of leading base64 characters; sym = their values
    let mut sym = [0u8; T];
    let mut m = n;
    let mut i = 0;
    while i < T {
        if i < n && m == n {
            let v = spec_b64(text[i]);
            if v == 0x40 {
                m = i;
            } else {
                sym[i] = v;
            }
        }
        i += 1;
    }
    // which raw symbols are kept
    let keep = if normalize { spec_keep::<T>(&sym, m) } else {
        let mut k = [false; T];
        let mut i = 0;
        while i < T {
            k[i] = i < m;
            i += 1;
        }
        k
    };
    // overflow point: raw index of the (N+1)-th kept symbol (default) / raw index N (strict)
    let mut limit = m; // raw symbols [..limit) are consumed as block hash content
    let mut overflow = false;
    let mut kept = 0usize;
    let mut i = 0;
    while i < T {
        if i < m && !overflow {
            if raw_capacity {
                if i >= N {
                    overflow = true;
                    limit = i;
                }
            } else if keep[i] && kept == N {
                overflow = true;
                limit = i;
            }
            if !overflow && keep[i] {
                kept += 1;
            }
        }
        i += 1;
    }
    // strict-parser quirk: after exactly N raw symbols any byte other than ':' / ',' is
    // reported as an overflow (not as a base64 error); the text is rejected either way.
    if strict_quirk && !overflow && m == N && n > N && text[N] != b':' && text[N] != b',' {
        overflow = true;
        limit = N;
    }
    let mut out = SpecBlockHash::<N> {
        state: 0, consumed: 0, stored: [0u8; N], stored_len: 0, nruns: 0,
        run_pos: [0; 24], run_len: [0; 24],
    };
    // stored symbols: kept symbols of sym[..limit]
    let mut len = 0usize;
    let mut i = 0;
    while i < T {
        if i < limit && keep[i] {
            if len < N {
                out.stored[len] = sym[i];
            }
            len += 1;
        }
        i += 1;
    }
    out.stored_len = len;
    if normalize {
        out.nruns = spec_long_runs::<T, 24>(&sym, limit, &mut out.run_pos, &mut out.run_len);
    }
    if overflow {
        out.state = S_OVERFLOW;
        out.consumed = limit;
    } else if m == n {
        out.state = S_EOS;
        out.consumed = m;
    } else if text[m] == b':' {
        out.state = S_COLON;
        out.consumed = m + 1;
    } else if text[m] == b',' {
        out.state = S_COMMA;
        out.consumed = m + 1;
    } else {
        out.state = S_B64;
        out.consumed = m;
    }
    out
}

const O_BS: u8 = 0;
const O_BH1: u8 = 1;
const O_BH2: u8 = 2;

#[allow(dead_code)]
struct SpecParse<const S1: usize, const S2: usize> {
    ok: bool,
    log_block_size: u8,
    bh1: [u8; S1],
    len1: usize,
    bh2: [u8; S2],
    len2: usize,
    end_index: usize, // comma position or end of text
    err_kind: u8,
    err_origin: u8,
    err_offset: usize,
    // raw-run data of the two fields (for dual types)
    nruns1: usize,
    run_pos1: [usize; 24],
    run_len1: [usize; 24],
    nruns2: usize,
    run_pos2: [usize; 24],
    run_len2: [usize; 24],
}

/// Whole text: `<block size>:<bh1>:<bh2>[,anything]`.
/// collapse: the type stores run-collapsed block hashes (normalizing and dual types);
/// raw_capacity: capacity is counted on the raw text (raw types, dual types, strict parser),
///               otherwise on the collapsed text (normalizing types, default parser).
#[allow(dead_code)]
fn spec_parse_text<const T: usize, const S1: usize, const S2: usize>(
    text: &[u8; T], n: usize, collapse: bool, raw_capacity: bool, strict_quirk: bool,
) -> SpecParse<S1, S2> {
    let mut out = SpecParse::<S1, S2> {
        ok: false, log_block_size: 0, bh1: [0; S1], len1: 0, bh2: [0; S2], len2: 0, end_index: 0,
        err_kind: 0, err_origin: 0, err_offset: 0,
        nruns1: 0, run_pos1: [0; 24], run_len1: [0; 24], nruns2: 0, run_pos2: [0; 24], run_len2: [0; 24],
    };
    let bs = spec_block_size_field::<T>(text, n);
    if !bs.ok {
        out.err_kind = bs.err_kind;
        out.err_origin = O_BS;
        out.err_offset = bs.err_offset;
        return out;
    }
    let mut j = 0u8;
    while j < 31 {
        if bs.value == (3u64 << j) {
            out.log_block_size = j;
        }
        j += 1;
    }
    // field 1 starts at off1
    let off1 = bs.consumed;
    let mut t1 = [0u8; T];
    let mut i = 0;
    while i < T {
        if i + off1 < n {
            t1[i] = text[i + off1];
        }
        i += 1;
    }
    let f1 = spec_block_hash_field::<T, S1>(&t1, n - off1, collapse, raw_capacity, strict_quirk);
    let err1 = match f1.state {
        S_COLON => 0,
        S_COMMA => K_CHAR,
        S_B64 => K_CHAR,
        S_EOS => K_EOS,
        _ => K_TOO_LONG,
    };
    if err1 != 0 {
        out.err_kind = err1;
        out.err_origin = O_BH1;
        out.err_offset = off1 + f1.consumed - (if f1.state == S_COMMA { 1 } else { 0 });
        return out;
    }
    let off2 = off1 + f1.consumed;
    let mut t2 = [0u8; T];
    let mut i = 0;
    while i < T {
        if i + off2 < n {
            t2[i] = text[i + off2];
        }
        i += 1;
    }
    let f2 = spec_block_hash_field::<T, S2>(&t2, n - off2, collapse, raw_capacity, strict_quirk);
    let err2 = match f2.state {
        S_COMMA => 0,
        S_EOS => 0,
        S_COLON => K_CHAR,
        S_B64 => K_CHAR,
        _ => K_TOO_LONG,
    };
    if err2 != 0 {
        out.err_kind = err2;
        out.err_origin = O_BH2;
        out.err_offset = off2 + f2.consumed - (if f2.state == S_COLON { 1 } else { 0 });
        return out;
    }
    out.ok = true;
    out.bh1 = f1.stored;
    out.len1 = f1.stored_len;
    out.bh2 = f2.stored;
    out.len2 = f2.stored_len;
    out.end_index = off2 + f2.consumed - (if f2.state == S_COMMA { 1 } else { 0 });
    out.nruns1 = f1.nruns;
    out.run_pos1 = f1.run_pos;
    out.run_len1 = f1.run_len;
    out.nruns2 = f2.nruns;
    out.run_pos2 = f2.run_pos;
    out.run_len2 = f2.run_len;
    out
}
