// Textbook LCS dynamic programming (row by row) and 7-gram search, written from
// the statements of C08 / C09.  Loops have constant trip counts (L), guarded by
// the symbolic lengths.

/// LCS length of a[..la] and b[..lb], la, lb <= L.
#[allow(dead_code)]
fn spec_lcs<const L: usize>(a: &[u8; L], la: usize, b: &[u8; L], lb: usize) -> u32 {
    // row[i] = LCS(a[..i], b[..j]) for the current j
    let mut row = [0u32; 65];
    let mut j = 0;
    while j < L {
        if j < lb {
            let mut diag = 0u32; // row_old[i]
            let mut i = 0;
            while i < L {
                if i < la {
                    let up = row[i + 1]; // row_old[i+1]
                    let left = row[i];   // row_new[i]
                    let v = if a[i] == b[j] { diag + 1 } else if up > left { up } else { left };
                    diag = up;
                    row[i + 1] = v;
                }
                i += 1;
            }
        }
        j += 1;
    }
    row[la]
}

/// insert/delete edit distance
#[allow(dead_code)]
fn spec_edit_distance<const L: usize>(a: &[u8; L], la: usize, b: &[u8; L], lb: usize) -> u32 {
    la as u32 + lb as u32 - 2 * spec_lcs::<L>(a, la, b, lb)
}

/// exists i, j: a[i..i+7] == b[j..j+7]
#[allow(dead_code)]
fn spec_common7<const LA: usize, const LB: usize>(a: &[u8; LA], la: usize, b: &[u8; LB], lb: usize) -> bool {
    let mut found = false;
    let mut i = 0;
    while i + 7 <= LA {
        if i + 7 <= la {
            let mut j = 0;
            while j + 7 <= LB {
                if j + 7 <= lb {
                    if a[i] == b[j] && a[i + 1] == b[j + 1] && a[i + 2] == b[j + 2] && a[i + 3] == b[j + 3]
                        && a[i + 4] == b[j + 4] && a[i + 5] == b[j + 5] && a[i + 6] == b[j + 6]
                    {
                        found = true;
                    }
                }
                j += 1;
            }
        }
        i += 1;
    }
    found
}
