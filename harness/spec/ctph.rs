// S*: "pure" CTPH as ssdeep 2.14.1 defines it (written from the statement of C01 and
// from libfuzzy's fuzzy.c semantics, not from ffuzzy's generator):
//   * 32 independent level contexts j = 0..=31; level j < 31 has block size 3 * 2^j,
//     level 31 is the pseudo level that never ends a piece (it yields the "last piece"
//     hash used as block hash 2 of the largest block size);
//   * every level absorbs every byte into its FNV states from the very first byte;
//   * level j ends a piece iff (rolling hash + 1) is a multiple of 3 * 2^j;
//   * the 64th piece keeps accumulating (it is overwritten by later piece ends);
//   * NO block hash elimination, NO fork limit, NO size hint: those are optimisations of
//     the implementation whose harmlessness is what the simulation proof shows.
// Plain Rust, no dependency on the crate: also compiled natively by the model validator.

pub const SPEC_NIL: u8 = 0xff;
pub const SPEC_FNV_INIT: u8 = 0x27; // 0x28021967 % 64
pub const SPEC_MAX_SIZE: u64 = 192u64 << 30;

/// low 6 bits of one 32-bit FNV-1 step (prime 0x01000193) applied to a state whose low 6
/// bits are `h`: ((h * 0x93) ^ c) mod 64 (only the low 6 bits of the product matter).
#[allow(dead_code)]
pub fn spec_fnv6(h: u8, c: u8) -> u8 {
    ((((h as u32).wrapping_mul(0x0100_0193)) ^ (c as u32)) & 0x3f) as u8
}

/// rolling hash of the last seven bytes, w[0] oldest .. w[6] newest (32-bit wrapping):
/// sum + position-weighted sum + shift-by-5-and-xor fold.
#[allow(dead_code)]
pub fn spec_roll_value(w: &[u8; 7]) -> u32 {
    let mut h1 = 0u32;
    let mut h2 = 0u32;
    let mut h3 = 0u32;
    let mut k = 0;
    while k < 7 {
        h1 = h1.wrapping_add(w[k] as u32);
        h2 = h2.wrapping_add(((k as u32) + 1).wrapping_mul(w[k] as u32));
        h3 = (h3 << 5) ^ (w[k] as u32);
        k += 1;
    }
    h1.wrapping_add(h2).wrapping_add(h3)
}

/// Deepest level that ends a piece for rolling value `roll`: Some(d) means levels 0..=d
/// (capped at 30) end a piece; None means no level does.
#[allow(dead_code)]
pub fn spec_trigger_depth(roll: u32) -> Option<u32> {
    let v = roll as u64 + 1; // 1 ..= 2^32
    if v % 3 != 0 {
        return None;
    }
    let q = v / 3;
    let tz = q.trailing_zeros();
    Some(if tz > 30 { 30 } else { tz })
}

/// Definition used by the statement of C01: level j ends a piece iff rolling hash + 1 is a
/// multiple of the block size 3 * 2^j (no wrap-around: the sum is taken in 64 bits).
#[allow(dead_code)]
pub fn spec_trigger_def(roll: u32, j: u32) -> bool {
    (roll as u64 + 1) % (3u64 << j) == 0
}

/// The same depth computed with 32-bit operations only (bit-blasting friendly); proved
/// equal to the definition for all 2^32 rolling values in c01_trigger_depth_lemma.
#[allow(dead_code)]
pub fn spec_trigger_depth_fast(roll: u32) -> Option<u32> {
    let v = roll.wrapping_add(1);
    if v == 0 || v % 3 != 0 {
        return None;
    }
    let tz = (v / 3).trailing_zeros();
    Some(if tz > 30 { 30 } else { tz })
}

#[derive(Clone, Copy)]
pub struct SpecLevel {
    pub n: usize,     // number of completed pieces stored at p[0..n], 0..=63
    pub p: [u8; 64],  // p[63] != NIL  <=>  the 64th piece exists (and keeps being overwritten)
    pub h: u8,        // FNV state of the current piece (6 bits)
    pub hh: u8,       // FNV state for the truncated form (reset only while n < 32)
    pub chh: u8,      // character of the truncated form's last position (NIL while n < 32)
}

impl SpecLevel {
    #[allow(dead_code)]
    pub fn new() -> Self {
        SpecLevel { n: 0, p: [SPEC_NIL; 64], h: SPEC_FNV_INIT, hh: SPEC_FNV_INIT, chh: SPEC_NIL }
    }
    #[allow(dead_code)]
    pub fn absorb(&mut self, c: u8) {
        self.h = spec_fnv6(self.h, c);
        self.hh = spec_fnv6(self.hh, c);
    }
    /// a piece ends at this level
    #[allow(dead_code)]
    pub fn end_piece(&mut self) {
        self.p[self.n] = self.h;
        self.chh = self.hh;
        if self.n < 63 {
            self.n += 1;
            self.h = SPEC_FNV_INIT;
            if self.n < 32 {
                self.chh = SPEC_NIL;
                self.hh = SPEC_FNV_INIT;
            }
        }
    }
    /// number of characters the level contributes before the trailing (partial) one
    #[allow(dead_code)]
    pub fn stored(&self) -> usize {
        if self.p[63] != SPEC_NIL { self.n + 1 } else { self.n }
    }
}

/// smallest j with 192 * 2^j >= size (size <= 192 GiB => j <= 30)
#[allow(dead_code)]
pub fn spec_initial_level(size: u64) -> usize {
    let mut j = 0usize;
    let mut k = 0;
    while k < 30 {
        if (192u64 << j) < size {
            j += 1;
        }
        k += 1;
    }
    j
}

pub struct SpecDigest {
    pub log: usize,
    pub bh1: [u8; 64],
    pub l1: usize,
    pub bh2: [u8; 64],
    pub l2: usize,
}

/// Block size choice: start from spec_initial_level(size), halve while the level has
/// fewer than 32 pieces (never below `lo`; lo = 0 in the pure algorithm).
#[allow(dead_code)]
pub fn spec_choose_level(counts: &[usize; 32], size: u64, lo: usize) -> usize {
    let mut bi = spec_initial_level(size);
    let mut k = 0;
    while k < 30 {
        if bi > lo && counts[bi] < 32 {
            bi -= 1;
        }
        k += 1;
    }
    bi
}

/// Digest from level `a` (block hash 1) and level `b` = a + 1 (block hash 2; level 31 is
/// the pseudo level), rolling value `roll`; `truncate` selects the default short form.
#[allow(dead_code)]
pub fn spec_digest_levels(log: usize, a: &SpecLevel, b: &SpecLevel, roll: u32, truncate: bool) -> SpecDigest {
    let mut d = SpecDigest { log, bh1: [0; 64], l1: 0, bh2: [0; 64], l2: 0 };
    // block hash 1
    let s1 = a.stored();
    let mut i = 0;
    while i < 64 {
        if i < s1 {
            d.bh1[i] = a.p[i];
        }
        i += 1;
    }
    d.l1 = s1;
    if roll != 0 {
        if s1 == 64 {
            d.bh1[63] = a.h;
        } else {
            d.bh1[s1] = a.h;
            d.l1 = s1 + 1;
        }
    }
    // block hash 2
    if truncate {
        if b.n >= 32 {
            // 31 stored pieces + the truncated form's last character
            let mut i = 0;
            while i < 31 {
                d.bh2[i] = b.p[i];
                i += 1;
            }
            d.bh2[31] = if roll != 0 { b.hh } else { b.chh };
            d.l2 = 32;
        } else {
            let mut i = 0;
            while i < 32 {
                if i < b.n {
                    d.bh2[i] = b.p[i];
                }
                i += 1;
            }
            d.l2 = b.n;
            if roll != 0 {
                d.bh2[b.n] = b.hh;
                d.l2 = b.n + 1;
            }
        }
    } else {
        let s2 = b.stored();
        let mut i = 0;
        while i < 64 {
            if i < s2 {
                d.bh2[i] = b.p[i];
            }
            i += 1;
        }
        d.l2 = s2;
        if roll != 0 {
            if s2 == 64 {
                d.bh2[63] = b.h;
            } else {
                d.bh2[s2] = b.h;
                d.l2 = s2 + 1;
            }
        }
    }
    d
}

/// The whole pure algorithm on a byte slice (native model validation and small BMC).
#[allow(dead_code)]
pub struct SpecCtph {
    pub lev: [SpecLevel; 32],
    pub win: [u8; 7], // last seven bytes, oldest first
    pub size: u64,
}

#[allow(dead_code)]
impl SpecCtph {
    pub fn new() -> Self {
        SpecCtph { lev: [SpecLevel::new(); 32], win: [0; 7], size: 0 }
    }
    pub fn step(&mut self, c: u8) {
        self.size += 1;
        let mut k = 0;
        while k < 6 {
            self.win[k] = self.win[k + 1];
            k += 1;
        }
        self.win[6] = c;
        let mut j = 0;
        while j < 32 {
            self.lev[j].absorb(c);
            j += 1;
        }
        if let Some(d) = spec_trigger_depth(spec_roll_value(&self.win)) {
            let mut j = 0;
            while j < 31 {
                if (j as u32) <= d {
                    self.lev[j].end_piece();
                }
                j += 1;
            }
        }
    }
    pub fn digest(&self, truncate: bool) -> SpecDigest {
        let mut counts = [0usize; 32];
        let mut j = 0;
        while j < 32 {
            counts[j] = self.lev[j].n;
            j += 1;
        }
        let bi = spec_choose_level(&counts, self.size, 0);
        spec_digest_levels(bi, &self.lev[bi], &self.lev[bi + 1], spec_roll_value(&self.win), truncate)
    }
}
