// Reference model of the ssdeep 2.14.1 score arithmetic (from the statement of C02/C20).

/// 100 - floor(100 * floor(64*d/(l1+l2)) / 64)
#[allow(dead_code)]
fn spec_raw_score(l1: u32, l2: u32, d: u32) -> u32 {
    let scaled = (64 * d) / (l1 + l2);
    100 - (100 * scaled) / 64
}

/// cap (blocksize/3)*min(l1,l2) = 2^n * min(l1,l2); not applied (>= 100) from n >= 4.
#[allow(dead_code)]
fn spec_score_cap(n: u32, l1: u32, l2: u32) -> u32 {
    let m = if l1 < l2 { l1 } else { l2 };
    (1u32 << n) * m
}

/// Score of one block-hash pair at effective log block size n (n may be 31):
/// 0 if no common 7-gram, otherwise raw score capped for small block sizes.
#[allow(dead_code)]
fn spec_pair_score(common: bool, l1: u32, l2: u32, d: u32, n: u32) -> u32 {
    if !common {
        return 0;
    }
    let s = spec_raw_score(l1, l2, d);
    if n >= 4 {
        return s;
    }
    let cap = spec_score_cap(n, l1, l2);
    if s < cap { s } else { cap }
}
