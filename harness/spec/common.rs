// Shared helpers for harness modules (included with include!).
// Everything here is loop-free or has loops with constant trip counts.

#[allow(unused_macros)]
macro_rules! all64 {
    ($a:expr, $p:expr) => {{
        let a = &$a;
        let p = $p;
        p(a[0]) && p(a[1]) && p(a[2]) && p(a[3]) && p(a[4]) && p(a[5]) && p(a[6]) && p(a[7])
        && p(a[8]) && p(a[9]) && p(a[10]) && p(a[11]) && p(a[12]) && p(a[13]) && p(a[14]) && p(a[15])
        && p(a[16]) && p(a[17]) && p(a[18]) && p(a[19]) && p(a[20]) && p(a[21]) && p(a[22]) && p(a[23])
        && p(a[24]) && p(a[25]) && p(a[26]) && p(a[27]) && p(a[28]) && p(a[29]) && p(a[30]) && p(a[31])
        && p(a[32]) && p(a[33]) && p(a[34]) && p(a[35]) && p(a[36]) && p(a[37]) && p(a[38]) && p(a[39])
        && p(a[40]) && p(a[41]) && p(a[42]) && p(a[43]) && p(a[44]) && p(a[45]) && p(a[46]) && p(a[47])
        && p(a[48]) && p(a[49]) && p(a[50]) && p(a[51]) && p(a[52]) && p(a[53]) && p(a[54]) && p(a[55])
        && p(a[56]) && p(a[57]) && p(a[58]) && p(a[59]) && p(a[60]) && p(a[61]) && p(a[62]) && p(a[63])
    }};
}

#[allow(unused_macros)]
macro_rules! all32 {
    ($a:expr, $p:expr) => {{
        let a = &$a;
        let p = $p;
        p(a[0]) && p(a[1]) && p(a[2]) && p(a[3]) && p(a[4]) && p(a[5]) && p(a[6]) && p(a[7])
        && p(a[8]) && p(a[9]) && p(a[10]) && p(a[11]) && p(a[12]) && p(a[13]) && p(a[14]) && p(a[15])
        && p(a[16]) && p(a[17]) && p(a[18]) && p(a[19]) && p(a[20]) && p(a[21]) && p(a[22]) && p(a[23])
        && p(a[24]) && p(a[25]) && p(a[26]) && p(a[27]) && p(a[28]) && p(a[29]) && p(a[30]) && p(a[31])
    }};
}
