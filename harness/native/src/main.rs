//! Native companion of the solver checks (NOT a verdict engine):
//!   * validates the reference models against the real crate on concrete data
//!     (the repository's own vectors plus structured inputs), and
//!   * replays SMT counterexamples through the public API.
#![allow(deprecated)]
use ssdeep::internal_comparison::{BlockHashPositionArray, BlockHashPositionArrayImpl};
use ssdeep::internal_hashes::RollingHash;
use ssdeep::{Generator, LongRawFuzzyHash, RawFuzzyHash};

include!(concat!(env!("VERIF_SPEC_DIR"), "/ctph.rs"));
include!(concat!(env!("VERIF_SPEC_DIR"), "/lcs.rs"));

fn digest_matches_short(h: &RawFuzzyHash, d: &SpecDigest) -> bool {
    h.log_block_size() as usize == d.log && h.block_hash_1() == &d.bh1[..d.l1] && h.block_hash_2() == &d.bh2[..d.l2]
}
fn digest_matches_long(h: &LongRawFuzzyHash, d: &SpecDigest) -> bool {
    h.log_block_size() as usize == d.log && h.block_hash_1() == &d.bh1[..d.l1] && h.block_hash_2() == &d.bh2[..d.l2]
}

fn check_ctph(name: &str, data: &[u8]) -> bool {
    let mut s = SpecCtph::new();
    for &b in data {
        s.step(b);
    }
    let mut g = Generator::new();
    g.update(data);
    let ok1 = digest_matches_short(&g.finalize().unwrap(), &s.digest(true));
    let ok2 = digest_matches_long(&g.finalize_without_truncation().unwrap(), &s.digest(false));
    if !(ok1 && ok2) {
        println!("MODEL-MISMATCH ctph {} (len {}) trunc_ok={} long_ok={}", name, data.len(), ok1, ok2);
    }
    ok1 && ok2
}

struct Lcg(u64);
impl Lcg {
    fn next(&mut self) -> u64 {
        self.0 = self.0.wrapping_mul(6364136223846793005).wrapping_add(1442695040888963407);
        self.0 >> 33
    }
}

/// a 7-byte word whose rolling hash + 1 is a multiple of 3 << level (found by search)
fn trigger_word(level: u32, rng: &mut Lcg) -> Option<[u8; 7]> {
    for _ in 0..20_000_000u64 {
        let mut w = [0u8; 7];
        for b in w.iter_mut() {
            *b = rng.next() as u8;
        }
        let r = spec_roll_value(&w);
        if (r as u64 + 1) % (3u64 << level) == 0 {
            return Some(w);
        }
    }
    None
}

fn model_ctph(files: &[String]) -> i32 {
    let mut bad = 0;
    let mut n = 0;
    for f in files {
        if let Ok(data) = std::fs::read(f) {
            n += 1;
            if !check_ctph(f, &data) {
                bad += 1;
            }
        }
    }
    let mut rng = Lcg(0x5eed);
    // random, low entropy, zero heavy, periodic, various sizes around block-size borders
    for &len in &[0usize, 1, 6, 7, 8, 191, 192, 193, 383, 384, 385, 4096, 4097, 12287, 12288, 12289, 100_000, 786_433, 3_000_000] {
        for mode in 0..4 {
            let data: Vec<u8> = (0..len)
                .map(|i| match mode {
                    0 => rng.next() as u8,
                    1 => (rng.next() % 3) as u8,
                    2 => if rng.next() % 16 == 0 { rng.next() as u8 } else { 0 },
                    _ => (i % 13) as u8,
                })
                .collect();
            n += 1;
            if !check_ctph(&format!("synthetic-{}-{}", len, mode), &data) {
                bad += 1;
            }
        }
    }
    // adversarial: words forcing piece boundaries at a chosen level, repeated (fills 64 pieces,
    // triggers elimination), with random filler in between
    for level in [0u32, 1, 2, 5, 8, 12] {
        if let Some(w) = trigger_word(level, &mut rng) {
            for reps in [1usize, 31, 32, 33, 63, 64, 65, 200] {
                let mut data = Vec::new();
                for k in 0..reps {
                    for _ in 0..(k % 5) {
                        data.push(rng.next() as u8);
                    }
                    data.extend_from_slice(&w);
                }
                n += 1;
                if !check_ctph(&format!("trigger-l{}-r{}", level, reps), &data) {
                    bad += 1;
                }
                // padded so that the size crosses block-size borders
                let mut padded = data.clone();
                padded.extend(std::iter::repeat(0u8).take(20_000));
                n += 1;
                if !check_ctph(&format!("trigger-l{}-r{}-pad", level, reps), &padded) {
                    bad += 1;
                }
            }
        }
    }
    println!("model-ctph: {} inputs, {} mismatches", n, bad);
    if bad == 0 { 0 } else { 1 }
}

const B64: &[u8; 64] = b"ABCDEFGHIJKLMNOPQRSTUVWXYZabcdefghijklmnopqrstuvwxyz0123456789+/";

fn collapse(s: &[u8]) -> Vec<u8> {
    let mut o: Vec<u8> = Vec::new();
    for (i, &c) in s.iter().enumerate() {
        if i >= 3 && s[i - 1] == c && s[i - 2] == c && s[i - 3] == c {
            continue;
        }
        o.push(c);
    }
    o
}

fn text(d: &SpecDigest, normalize: bool) -> String {
    let (a, b) = (&d.bh1[..d.l1], &d.bh2[..d.l2]);
    let (a, b) = if normalize { (collapse(a), collapse(b)) } else { (a.to_vec(), b.to_vec()) };
    let f = |v: &[u8]| v.iter().map(|&x| B64[x as usize] as char).collect::<String>();
    format!("{}:{}:{}", 3u64 << d.log, f(&a), f(&b))
}

/// S* against the libfuzzy-generated expectations shipped with the repository.
fn model_vectors(crate_dir: &str) -> i32 {
    let list = std::fs::read_to_string(format!("{}/data/testsuite/generate-small.ssdeep.txt", crate_dir)).unwrap();
    let (mut n, mut bad) = (0, 0);
    for line in list.lines() {
        if line.starts_with('#') || line.trim().is_empty() {
            continue;
        }
        let parts: Vec<&str> = line.split_whitespace().collect();
        if parts.len() < 3 {
            continue;
        }
        let flags: u32 = parts[1].parse().unwrap();
        let data = match std::fs::read(format!("{}/{}", crate_dir, parts[0])) {
            Ok(d) => d,
            Err(_) => continue,
        };
        let mut s = SpecCtph::new();
        for &b in &data {
            s.step(b);
        }
        let norm = flags & 4 != 0;
        if flags & 1 != 0 {
            n += 1;
            if text(&s.digest(true), norm) != parts[2] {
                bad += 1;
                println!("MODEL-MISMATCH vector(trunc) {} expected {} got {}", parts[0], parts[2], text(&s.digest(true), norm));
            }
        }
        if flags & 2 != 0 {
            n += 1;
            if text(&s.digest(false), norm) != parts[2] {
                bad += 1;
                println!("MODEL-MISMATCH vector(long) {} expected {} got {}", parts[0], parts[2], text(&s.digest(false), norm));
            }
        }
    }
    println!("model-vectors: {} expectations, {} mismatches", n, bad);
    if bad == 0 && n > 0 { 0 } else { 1 }
}

fn roll(bytes: &[u8]) -> i32 {
    let mut r = RollingHash::new();
    r.update(bytes);
    let mut w = [0u8; 7];
    let n = bytes.len();
    for k in 0..7 {
        if n + k >= 7 {
            w[k] = bytes[n + k - 7];
        }
    }
    let (real, spec) = (r.value(), spec_roll_value(&w));
    println!("roll real={} spec={}", real, spec);
    if real == spec { 0 } else { 1 }
}

/// small-scope native search for a mismatch between edit_distance and the DP
fn ed_search(maxlen: usize, alpha: u8) -> i32 {
    fn rec(buf: &mut Vec<u8>, maxlen: usize, alpha: u8, all: &mut Vec<Vec<u8>>) {
        all.push(buf.clone());
        if buf.len() == maxlen {
            return;
        }
        for c in 0..alpha {
            buf.push(c);
            rec(buf, maxlen, alpha, all);
            buf.pop();
        }
    }
    let mut all = Vec::new();
    rec(&mut Vec::new(), maxlen, alpha, &mut all);
    for a in &all {
        let mut pa = BlockHashPositionArray::new();
        pa.init_from(a);
        for b in &all {
            let real = pa.edit_distance(b);
            let mut x = [0u8; 8];
            let mut y = [0u8; 8];
            x[..a.len()].copy_from_slice(a);
            y[..b.len()].copy_from_slice(b);
            let spec = spec_edit_distance::<8>(&x, a.len(), &y, b.len());
            if real != spec {
                println!("ed-mismatch a={:?} b={:?} real={} spec={}", a, b, real, spec);
                return 1;
            }
        }
    }
    // long strings (top bits of the 64-bit vector): |a| in {62,63,64} over a small alphabet,
    // short and long |b|, pseudo-random, both argument orders
    let mut rng = Lcg(0x1c5);
    for trial in 0..20000u32 {
        let la = 62 + (trial % 3) as usize;
        let lb = match trial % 5 { 0 => 0, 1 => 3, 2 => 17, 3 => 40, _ => 64 };
        let k = 2 + (rng.next() % 5) as u8;
        let a: Vec<u8> = (0..la).map(|i| if i + 1 == la && trial % 2 == 0 { 63 } else { (rng.next() % k as u64) as u8 }).collect();
        let b: Vec<u8> = (0..lb).map(|_| (rng.next() % k as u64) as u8).collect();
        let mut x = [0u8; 64];
        let mut y = [0u8; 64];
        x[..la].copy_from_slice(&a);
        y[..lb].copy_from_slice(&b);
        let spec = spec_edit_distance::<64>(&x, la, &y, lb);
        let mut pa = BlockHashPositionArray::new();
        pa.init_from(&a);
        let mut pb = BlockHashPositionArray::new();
        pb.init_from(&b);
        let (r1, r2) = (std::panic::catch_unwind(|| pa.edit_distance(&b)), std::panic::catch_unwind(|| pb.edit_distance(&a)));
        if r1.as_ref().ok() != Some(&spec) || r2.as_ref().ok() != Some(&spec) {
            println!("ed-mismatch a={:?} b={:?} real(a,b)={:?} real(b,a)={:?} spec={}", a, b, r1.ok(), r2.ok(), spec);
            return 1;
        }
    }
    println!("ed-search: {} short strings and 20000 long pairs, no mismatch", all.len());
    0
}

fn main() {
    let args: Vec<String> = std::env::args().collect();
    let rc = match args.get(1).map(|s| s.as_str()) {
        Some("model-ctph") => model_ctph(&args[2..]),
        Some("model-vectors") => model_vectors(&args[2]),
        Some("roll") => roll(&args[2..].iter().map(|s| s.parse::<u8>().unwrap()).collect::<Vec<_>>()),
        Some("ed-search") => ed_search(args[2].parse().unwrap(), args[3].parse().unwrap()),
        _ => {
            eprintln!("usage: verif-native model-ctph <files..> | roll <bytes..> | ed-search <maxlen> <alphabet>");
            2
        }
    };
    std::process::exit(rc);
}
